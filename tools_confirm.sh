#!/bin/bash
# usage: tools_confirm.sh <PROP> <i> : confirm a seeded change in its scratch worktree /tmp/wt-<PROP>
prop=$1; i=$2; wt=/tmp/wt-$prop; sd=$wt/seeded/$i
export CARGO_TARGET_DIR=$wt/target CARGO_NET_OFFLINE=true
cd $wt || exit 9
git checkout -q -- src 2>/dev/null; rm -f tests/demo.rs
git apply --check $sd/patch.diff || { echo "RESULT $prop/$i patch-does-not-apply"; exit 1; }
git apply $sd/patch.diff
suite=$(cargo test --offline 2>&1 | grep -E "^test result" | tr '\n' ' ')
mkdir -p tests; cp $sd/demo.rs tests/demo.rs
with=$(cargo test --offline --test demo 2>&1 | grep -E "^test result" | tr '\n' ' ')
git checkout -q -- src
without=$(cargo test --offline --test demo 2>&1 | grep -E "^test result" | tr '\n' ' ')
rm -f tests/demo.rs; rmdir tests 2>/dev/null
echo "RESULT $prop/$i | suite-with-change: $suite | demo-with-change: $with | demo-without: $without"
