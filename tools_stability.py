#!/usr/bin/env python3
"""Development aid: verify every Verus unit under several crate names (Z3 heuristics depend on symbol names):
a proof that fails under some name is unstable and a false alarm waiting to happen.
usage: tools_stability.py [N] [UNIT ...]"""
import os, sys, subprocess, tempfile, shutil, json, concurrent.futures as cf
sys.path.insert(0, '/verif/lib')
import config, extract
args = sys.argv[1:]
N = int(args[0]) if args and args[0].isdigit() else 4
units = [a for a in args if not a.isdigit()] or [u for u in config.UNITS if config.UNITS[u]['engine'] == 'verus']
work = tempfile.mkdtemp(prefix='verif-stab-')
jobs = []
for u in units:
    extract.SourceFile.cache.clear()
    ex, text, spans = extract.generate('/repo', '/verif', os.path.join('/verif/units', config.UNITS[u]['file']))
    for k in range(N):
        name = '%s_%s' % (u.replace('-', '_').lower(), ['a', 'zz', 'q7', 'mm', 'x1', 'kk'][k])
        p = os.path.join(work, name + '.rs')
        open(p, 'w').write(text)
        jobs.append((u, name, p, ex.rlimit or '100'))
def run(j):
    u, name, p, rl = j
    try:
        r = subprocess.run(['verus', p, '--rlimit', str(rl), '--num-threads', '2', '--output-json'], capture_output=True, text=True, timeout=900)
        js = json.loads(r.stdout) if r.stdout.strip().startswith('{') else {}
        vr = js.get('verification-results', {})
        return u, name, vr.get('verified'), vr.get('errors'), r.returncode
    except subprocess.TimeoutExpired:
        return u, name, None, 'timeout', 99
bad = 0
with cf.ThreadPoolExecutor(max_workers=6) as pool:
    for u, name, v, e, rc in pool.map(run, jobs):
        ok = (e == 0 and rc == 0)
        bad += not ok
        print('%-8s %-12s verified=%s errors=%s rc=%s %s' % (u, name, v, e, rc, '' if ok else '<<<<<< UNSTABLE'), flush=True)
shutil.rmtree(work, ignore_errors=True)
print('unstable runs:', bad)
