#!/usr/bin/env python3
"""Regenerate the seeded-changes table of DESIGN.md (section 0.4) from seeded/*/meta.json."""
import json, os, re
V = '/verif'
rows = []
for sid in sorted(os.listdir(os.path.join(V, 'seeded'))):
    m = json.load(open(os.path.join(V, 'seeded', sid, 'meta.json')))
    notes = open(os.path.join(V, 'seeded', sid, 'notes.md')).read()
    patch = open(os.path.join(V, 'seeded', sid, 'patch.diff')).read()
    files = sorted(set(re.findall(r'^\+\+\+ b/(\S+)', patch, re.M)))
    what = m.get('summary') or ''
    cr = m.get('check_results', {})
    def cell(t):
        r = cr.get(t)
        if not r:
            return '-'
        v = r['verdict'].split()[0]
        ob = ''
        if r.get('failed_obligations'):
            ob = r['failed_obligations'][0].replace('failed obligation: ', '').split('  (')[0]
        elif r.get('undecided'):
            ob = r['undecided'][0][:90]
        return '%s%s' % (v, (' — `' + ob[:110] + '`') if ob else '')
    rows.append('| %s | %s | %s | %s | %s |' % (sid, m['breaks_property'], ', '.join(f.replace('src/', '') for f in files), cell('quick'), cell('thorough')))
tbl = ['Property-breaking changes written by independent sub-agents that saw only the property text and a scratch',
       'worktree (never anything from /verif). Each was confirmed in its worktree (applies; the 167 + 9 tests pass with it;',
       'its demonstration fails with it and passes without), then applied to /repo, checked, and reverted',
       '(`tools_seedmatrix.py`; details per change in `seeded/<id>/meta.json`, what it needs to manifest in `notes.md`).',
       '',
       '| id | property | file(s) changed | quick check | thorough check |', '|---|---|---|---|---|'] + rows
n = len(rows)
det_q = sum(1 for r in rows if '| DETECTED' in r.split('|')[4] or 'DETECTED' in r.split('|')[4])
s = open(os.path.join(V, 'DESIGN.md')).read()
a = s.index('### 0.4 Seeded changes')
import re as _re
_m = _re.search(r'^(### 0\.[5-9]|-{60,})', s[a + 10:], _re.M)   # the table section ends at the next 0.x heading or the rule
b = a + 10 + _m.start()
body = '### 0.4 Seeded changes\n\n' + '\n'.join(tbl) + '\n\nSEEDNOTES\n\n'
old_notes = re.search(r'<!-- seednotes -->.*?<!-- /seednotes -->', s[a:b], re.S)
body = body.replace('SEEDNOTES', old_notes.group(0) if old_notes else '<!-- seednotes -->\n<!-- /seednotes -->')
s = s[:a] + body + s[b:]
open(os.path.join(V, 'DESIGN.md'), 'w').write(s)
print('rows', n)
