#!/bin/bash
# usage: tools_seed.sh <PROP> <patch.diff> : apply to /repo, run quick check, revert
prop=$1; patch=$2
git -C /repo apply --check "$patch" || { echo "patch does not apply"; exit 9; }
git -C /repo apply "$patch"
cd /verif && ./check $prop 2>&1 | grep -v "^unit .* ok " | tail -${3:-6}; rc=${PIPESTATUS[0]}
git -C /repo checkout -- .
[ -z "$(git -C /repo status --porcelain)" ] || echo "WARNING repo not clean"
echo "exit=$rc"
