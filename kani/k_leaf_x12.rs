// K-LEAF-X12: value layer of the X12 encoder (src/encodation/x12.rs) against
// ISO/IEC 16022 Table 7 (ANSI X12 set), for ALL byte values.
use super::*;

fn iso_x12_char(v: u8) -> Option<u8> {
    match v {
        0 => Some(13),
        1 => Some(42),
        2 => Some(62),
        3 => Some(32),
        4..=13 => Some(48 + (v - 4)),
        14..=39 => Some(65 + (v - 14)),
        _ => None,
    }
}

#[kani::proof]
fn x12_enc_all_bytes() {
    let ch: u8 = kani::any();
    let native = ch == 13 || ch == 42 || ch == 62 || ch == 32 || (ch >= 48 && ch <= 57) || (ch >= 65 && ch <= 90);
    assert!(is_native_x12(ch) == native);
    if native {
        let v = enc(ch);
        assert!(v < 40);
        assert!(iso_x12_char(v) == Some(ch));
    }
}
