// K-ORD / K-LIST: order of SymbolSize and the searches of SymbolList (src/symbol_size.rs).
use super::*;

fn pick() -> SymbolSize {
    let i: usize = kani::any();
    kani::assume(i < 48);
    SYMBOL_SIZES[i]
}

// K-ORD (complete: all 48 x 48 pairs): cmp is antisymmetric, Equal only for the same size,
// consistent with partial_cmp, and refines the order of data capacities
#[kani::proof]
fn ord_all_pairs() {
    let a = pick();
    let b = pick();
    let c = a.cmp(&b);
    assert!(c == b.cmp(&a).reverse());
    assert!((c == Ordering::Equal) == (a == b));
    assert!(a.partial_cmp(&b) == Some(c));
    if c != Ordering::Greater {
        assert!(a.num_data_codewords() <= b.num_data_codewords());
    }
}

// K-ORD (complete: all 48^3 triples): transitivity
#[kani::proof]
fn ord_all_triples_transitive() {
    let a = pick();
    let b = pick();
    let c = pick();
    if a.cmp(&b) != Ordering::Greater && b.cmp(&c) != Ordering::Greater {
        assert!(a.cmp(&c) != Ordering::Greater);
    }
}

// K-LIST (bounded: lists of two sizes out of 48, every n): the symbol picked is the first one in
// list order that is large enough; None only if none is; a non-empty list has an upper limit
#[kani::proof]
#[kani::unwind(4)]
fn list_of_two_first_fit() {
    let a = pick();
    let b = pick();
    let list = SymbolList::from([a, b]);
    assert!(!list.is_empty());
    assert!(list.contains(&a) && list.contains(&b));
    let n: usize = kani::any();
    kani::assume(n <= 4000);
    match list.first_symbol_big_enough_for(n) {
        Some(s) => {
            assert!(s == a || s == b);
            assert!(s.num_data_codewords() >= n);
            if a.num_data_codewords() >= n {
                assert!(s.cmp(&a) != Ordering::Greater);
            }
            if b.num_data_codewords() >= n {
                assert!(s.cmp(&b) != Ordering::Greater);
            }
        }
        None => {
            assert!(a.num_data_codewords() < n && b.num_data_codewords() < n);
        }
    }
    let len: usize = kani::any();
    assert!(list.upper_limit_for_number_of_codewords(len).is_some());
    let mc = list.max_capacity();
    assert!(mc == core::cmp::max(a.capacity().max, b.capacity().max));
}

#[kani::proof]
#[kani::unwind(4)]
fn list_empty_and_single() {
    let e = SymbolList::from([]);
    assert!(e.is_empty());
    let n: usize = kani::any();
    assert!(e.first_symbol_big_enough_for(n).is_none());
    assert!(e.upper_limit_for_number_of_codewords(n).is_none());
    assert!(e.max_capacity() == 0);
    let a = pick();
    let l = SymbolList::from(a);
    assert!(!l.is_empty());
    assert!(l.upper_limit_for_number_of_codewords(n) == Some(a.num_data_codewords()));
    assert!(l.first_symbol_big_enough_for(n) == if a.num_data_codewords() >= n { Some(a) } else { None });
}
