// K-LD-LZ (bounded): find_inv_error_locations_levinson_durbin never panics on syndrome
// vectors that start with L >= 1 zeros (the shape reached by words far outside the
// correction radius).  One harness per (k, L); the first non-zero syndrome is 1, all later
// ones are symbolic.  L = 0 does not finish in CBMC and is not run.
use super::*;

fn ld_with_leading_zeros<const K: usize>(l: usize) {
    let mut syn = [GF(0); K];
    let mut i = l;
    while i < K {
        syn[i] = GF(kani::any());
        i += 1;
    }
    // the first non-zero syndrome is fixed to 1 (a symbolic value here does not finish)
    syn[l] = GF(1);
    let r = find_inv_error_locations_levinson_durbin(&syn);
    if let Ok(w) = r {
        assert!(w.len() >= 2 && w.len() <= K / 2 + 1);
        assert!(w[w.len() - 1] == GF(1));
    }
    // more leading zeros than t = K/2 cannot come from <= t errors
    if l + 1 > K / 2 {
        assert!(find_inv_error_locations_levinson_durbin(&syn).is_err());
    }
}

#[kani::proof]
#[kani::unwind(8)]
fn ld_k5_leading_zeros_1() { ld_with_leading_zeros::<5>(1); }
#[kani::proof]
#[kani::unwind(8)]
fn ld_k5_leading_zeros_2() { ld_with_leading_zeros::<5>(2); }
#[kani::proof]
#[kani::unwind(8)]
fn ld_k5_leading_zeros_4() { ld_with_leading_zeros::<5>(4); }
#[kani::proof]
#[kani::unwind(10)]
fn ld_k7_leading_zeros_2() { ld_with_leading_zeros::<7>(2); }
#[kani::proof]
#[kani::unwind(10)]
fn ld_k7_leading_zeros_3() { ld_with_leading_zeros::<7>(3); }
