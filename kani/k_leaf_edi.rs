// K-LEAF-EDI: packing layer of the EDIFACT encoder (src/encodation/edifact.rs)
// against ISO/IEC 16022 5.2.8 (four 6-bit values in three codewords), for ALL inputs.
use super::*;
#[path = "recctx.rs"]
mod recctx;
use recctx::Rec;

#[kani::proof]
fn edifact_write4_all_inputs() {
    let n: usize = kani::any();
    kani::assume(n >= 1 && n <= 4);
    let vals: [u8; 4] = kani::any();
    let mut s = ArrayVec::<u8, 4>::new();
    let mut i = 0;
    while i < n {
        s.push(vals[i]);
        i += 1;
    }
    // the encoder hands in characters 32..=94 (or the unlatch value 31); only the low 6 bits count
    let mut ctx = Rec { cw: alloc::vec::Vec::new() };
    write4(&mut ctx, &s);
    let six = |k: usize| -> u8 { if k < n { vals[k] & 0x3F } else { 0 } };
    // number of codewords: 1 value -> 1, 2 -> 2, 3 or 4 -> 3
    let want = if n == 1 { 1 } else if n == 2 { 2 } else { 3 };
    assert!(ctx.cw.len() == want);
    // unpack per the standard: a/4, (a%4)*16 + b/16, (b%16)*4 + c/64, c%64
    let a = ctx.cw[0];
    assert!(a / 4 == six(0));
    if want >= 2 {
        let b = ctx.cw[1];
        assert!((a % 4) * 16 + b / 16 == six(1));
        if want >= 3 {
            let c = ctx.cw[2];
            assert!((b % 16) * 4 + c / 64 == six(2));
            assert!(c % 64 == six(3));
        } else {
            assert!(b % 16 == six(2) >> 2);
        }
    } else {
        assert!(a % 4 == six(1) >> 4);
    }
}

#[kani::proof]
fn edifact_is_encodable_all_bytes() {
    let ch: u8 = kani::any();
    assert!(is_encodable(ch) == (ch >= 32 && ch <= 94));
    // 5.2.8: the EDIFACT value of a character is its low six bits; decoding maps 0..31 -> +64, 32..63 -> itself
    if is_encodable(ch) {
        let v = ch & 0x3F;
        let back = if v >= 32 { v } else { v + 64 };
        assert!(back == ch);
        assert!(v != UNLATCH || ch == 95);
    }
}
