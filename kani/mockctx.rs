// A harness-local EncodingContext for the modular encoder harnesses (K-C40-MOD, K-EDI-MOD): fixed arrays,
// a symbol list of two capacities, one planned switch position; plus the reference ASCII encodation (5.2.3).
pub const NI: usize = 5;
pub const NO: usize = 16;

pub struct Mock {
    pub input: [u8; NI],
    pub len: usize,
    pub pos: usize,
    pub out: [u8; NO],
    pub n_out: usize,
    pub cap1: usize,
    pub cap2: usize,
    pub switch_at: usize,
    pub ascii_until_end: bool,
    pub switched: bool,
}

impl Mock {
    // `len` is a concrete number in every harness (one harness per run length keeps the unrolling concrete)
    pub fn any(len: usize) -> Mock {
        let input: [u8; NI] = kani::any();
        kani::assume(len <= NI);
        let cap1: usize = kani::any();
        let cap2: usize = kani::any();
        kani::assume(cap1 <= cap2 && cap2 <= NO - 4);
        let switch_at: usize = kani::any();
        kani::assume(switch_at < len);
        Mock { input, len, pos: 0, out: [0; NO], n_out: 0, cap1, cap2, switch_at, ascii_until_end: false, switched: false }
    }
    pub fn first_fit(&self, n: usize) -> Option<usize> {
        if n <= self.cap1 {
            Some(self.cap1)
        } else if n <= self.cap2 {
            Some(self.cap2)
        } else {
            None
        }
    }
}

impl super::EncodingContext for Mock {
    fn maybe_switch_mode(&mut self) -> Result<bool, super::DataEncodingError> {
        let cl = self.len - self.pos;
        // (the real context asserts that an encoder never runs past a planned switch)
        assert!(self.switched || cl >= self.switch_at);
        if !self.switched && cl > 0 && cl == self.switch_at {
            self.switched = true;
            return Ok(true);
        }
        Ok(false)
    }
    fn symbol_size_left(&mut self, extra: usize) -> Option<usize> {
        let used = self.n_out + extra;
        self.first_fit(used).map(|c| c - used)
    }
    fn eat(&mut self) -> Option<u8> {
        if self.pos < self.len {
            self.pos += 1;
            Some(self.input[self.pos - 1])
        } else {
            None
        }
    }
    fn backup(&mut self, steps: usize) {
        assert!(steps <= self.pos);
        self.pos -= steps;
    }
    fn rest(&self) -> &[u8] {
        &self.input[self.pos..self.len]
    }
    fn push(&mut self, ch: u8) {
        assert!(self.n_out < NO);
        self.out[self.n_out] = ch;
        self.n_out += 1;
    }
    fn replace(&mut self, _index: usize, _ch: u8) {
        unreachable!()
    }
    fn insert(&mut self, _index: usize, _ch: u8) {
        unreachable!()
    }
    fn codewords(&self) -> &[u8] {
        &self.out[..self.n_out]
    }
    fn set_ascii_until_end(&mut self) {
        self.ascii_until_end = true;
    }
}

// ---- reference side: ISO/IEC 16022 5.2.3 ASCII encodation of the characters handed back (what follows the run) ----
pub fn ref_ascii_encode(rest: &[u8], sym: &mut [u8; 2 * NO], mut n: usize) -> usize {
    let mut i = 0;
    while i < rest.len() {
        let a = rest[i];
        if i + 1 < rest.len() && a >= 48 && a <= 57 && rest[i + 1] >= 48 && rest[i + 1] <= 57 {
            sym[n] = (a - 48) * 10 + (rest[i + 1] - 48) + 130;
            n += 1;
            i += 2;
        } else if a <= 127 {
            sym[n] = a + 1;
            n += 1;
            i += 1;
        } else {
            sym[n] = 235;
            sym[n + 1] = a - 127;
            n += 2;
            i += 1;
        }
    }
    n
}

