// K-LEAF-TEXT: value layer of the Text encoder (src/encodation/text.rs) against
// ISO/IEC 16022 Table 6 (Text character set), for ALL byte values.
use super::*;

fn iso_text_char(vals: &[u8]) -> Option<u8> {
    let (upper, v) = if vals.len() >= 2 && vals[0] == 1 && vals[1] == 30 { (true, &vals[2..]) } else { (false, vals) };
    let base = if v.len() == 1 {
        match v[0] {
            3 => 32u8,
            4..=13 => 48 + (v[0] - 4),
            14..=39 => 97 + (v[0] - 14),
            _ => return None,
        }
    } else if v.len() == 2 {
        match (v[0], v[1]) {
            (0, x) if x <= 31 => x,
            (1, x) if x <= 14 => 33 + x,
            (1, x) if x >= 15 && x <= 21 => 58 + (x - 15),
            (1, x) if x >= 22 && x <= 26 => 91 + (x - 22),
            (2, 0) => 96,
            (2, x) if x >= 1 && x <= 26 => 65 + (x - 1),
            (2, x) if x >= 27 && x <= 31 => 123 + (x - 27),
            _ => return None,
        }
    } else {
        return None;
    };
    if upper { Some(base + 128) } else { Some(base) }
}

#[kani::proof]
#[kani::unwind(8)]
fn text_to_vals_all_bytes() {
    let ch: u8 = kani::any();
    let mut buf = ArrayVec::<u8, 6>::new();
    if ch < 128 {
        low_ascii_to_text_symbols(&mut buf, ch);
    } else {
        buf.push(1);
        buf.push(30);
        low_ascii_to_text_symbols(&mut buf, ch - 128);
    }
    assert!(iso_text_char(&buf) == Some(ch));
    assert!(val_size(ch) as usize == buf.len());
    assert!(in_base_set(ch) == (ch == 32 || (ch >= 48 && ch <= 57) || (ch >= 97 && ch <= 122)));
    assert!(in_base_set(ch) == (buf.len() == 1));
}
