// K-C40-MOD / K-TEXT-MOD: the real `c40::encode_generic` + `handle_end` + `to_vals` (C40 and Text tables) run
// against a harness-local EncodingContext (fixed arrays, a list of two symbol capacities, one planned switch
// position), for EVERY input of at most N characters, every pair of capacities and every switch position.
// Oracle (independent of the code): the codewords written for the run, followed by the ASCII encodation of
// what the encoder hands back to ASCII (ISO/IEC 16022 5.2.3) and by padding up to the capacity of the first
// symbol that fits, are read by a transcription of the ISO C40/Text decoding rules (5.2.5, incl. the
// end-of-symbol rules of 5.2.5.2) as exactly the input.  Bounded: N characters.
use super::*;

#[path = "mockctx.rs"]
mod mockctx;
use mockctx::{ref_ascii_encode, Mock, NI, NO};

// ---- reference side: ISO/IEC 16022 Table 6 (C40 / Text value sets) ----
fn ref_basic(v: u8, text: bool) -> u8 {
    if v == 3 {
        32
    } else if v <= 13 {
        48 + (v - 4)
    } else if text {
        97 + (v - 14)
    } else {
        65 + (v - 14)
    }
}
fn ref_shift3(v: u8, text: bool) -> u8 {
    if !text {
        96 + v
    } else if v == 0 {
        96
    } else if v <= 26 {
        65 + (v - 1)
    } else {
        123 + (v - 27)
    }
}

pub(crate) struct Dec {
    pub out: [u8; 2 * NI],
    pub n: usize,
    pub ok: bool,
}

// reads the symbol content `sym[..n]` (n = capacity of the symbol; positions >= data_end are pad codewords)
// starting in C40/Text mode, per 5.2.5: pairs of codewords -> three values; 254 in the first position of a pair
// returns to ASCII; a single codeword left at the end of the symbol is ASCII (implicit unlatch)
fn ref_decode_c40(sym: &[u8; 2 * NO], n: usize, data_end: usize, text: bool) -> Dec {
    let mut d = Dec { out: [0; 2 * NI], n: 0, ok: true };
    let mut i = 0;
    let mut shift: u8 = 0;
    let mut upper = false;
    let mut in_ascii = false;
    while i < n && !in_ascii {
        if n - i == 1 {
            // a single unlatch codeword in the last position of the symbol is accepted (cf. lib/isoref.py, spec/iso_decode.rs)
            if i < data_end && sym[i] == 254 {
                i += 1;
            }
            in_ascii = true;
        } else if i >= data_end {
            // pad codewords while still in C40 mode: not conformant
            d.ok = false;
            return d;
        } else if sym[i] == 254 {
            i += 1;
            in_ascii = true;
        } else {
            let x = (sym[i] as u32) * 256 + sym[i + 1] as u32;
            if x == 0 || x > 64000 {
                d.ok = false;
                return d;
            }
            let x = x - 1;
            let vals = [(x / 1600) as u8, ((x / 40) % 40) as u8, (x % 40) as u8];
            let mut k = 0;
            while k < 3 {
                let v = vals[k];
                if shift == 0 {
                    if v <= 2 {
                        shift = v + 1;
                    } else {
                        let c = ref_basic(v, text);
                        d.out[d.n] = if upper { c + 128 } else { c };
                        d.n += 1;
                        upper = false;
                    }
                } else if shift == 1 {
                    if v > 31 {
                        d.ok = false;
                        return d;
                    }
                    d.out[d.n] = if upper { v + 128 } else { v };
                    d.n += 1;
                    upper = false;
                    shift = 0;
                } else if shift == 2 {
                    if v == 30 {
                        upper = true;
                    } else {
                        let c = if v <= 14 {
                            33 + v
                        } else if v <= 21 {
                            58 + (v - 15)
                        } else if v <= 26 {
                            91 + (v - 22)
                        } else {
                            d.ok = false;
                            return d;
                        };
                        d.out[d.n] = if upper { c + 128 } else { c };
                        d.n += 1;
                        upper = false;
                    }
                    shift = 0;
                } else {
                    if v > 31 {
                        d.ok = false;
                        return d;
                    }
                    let c = ref_shift3(v, text);
                    d.out[d.n] = if upper { c + 128 } else { c };
                    d.n += 1;
                    upper = false;
                    shift = 0;
                }
                k += 1;
            }
            i += 2;
        }
    }
    // ASCII part up to the first pad / the end of the data
    let mut up = false;
    while i < n && i < data_end {
        let c = sym[i];
        if c >= 1 && c <= 128 {
            d.out[d.n] = if up { c - 1 + 128 } else { c - 1 };
            d.n += 1;
            up = false;
        } else if c >= 130 && c <= 229 && !up {
            d.out[d.n] = 48 + (c - 130) / 10;
            d.out[d.n + 1] = 48 + (c - 130) % 10;
            d.n += 2;
        } else if c == 235 && !up {
            up = true;
        } else {
            d.ok = false;
            return d;
        }
        i += 1;
    }
    if up {
        d.ok = false;
    }
    d
}

fn is_digit(c: u8) -> bool {
    c >= 48 && c <= 57
}

fn check_run(text: bool, len: usize) {
    let mut m = Mock::any(len);
    let r = if text { crate::encodation::text::encode(&mut m) } else { encode(&mut m) };
    if r.is_err() {
        // only "does not fit" is reported, and only when the run really cannot be placed
        assert!(r == Err(DataEncodingError::TooMuchOrIllegalData));
        return;
    }
    assert!(m.pos <= m.len);
    // reachability of the three exits (vacuity guard)
    kani::cover!(m.len < 2 || (m.switched && !m.ascii_until_end));
    kani::cover!(!m.switched && m.pos == m.len && m.n_out > 0);
    kani::cover!(m.ascii_until_end);
    let mut sym = [0u8; 2 * NO];
    let mut k = 0;
    while k < m.n_out {
        sym[k] = m.out[k];
        k += 1;
    }
    // (an end-of-data rule may override a planned switch: the encoder then hands the rest to ASCII; in the real
    //  context that is sound when the planned mode is ASCII, which is part of A-OPT)
    if m.switched && !m.ascii_until_end {
        // a planned switch: the run ends at the planned position, back in ASCII (explicit unlatch)
        assert!(m.len - m.pos == m.switch_at);
        assert!(m.n_out >= 1 && m.out[m.n_out - 1] == 254);
        let d = ref_decode_c40(&sym, m.n_out + 2, m.n_out, text);
        assert!(d.ok && d.n == m.pos);
        let mut j = 0;
        while j < m.pos {
            assert!(d.out[j] == m.input[j]);
            j += 1;
        }
    } else {
        // end of data: whatever is left goes to ASCII
        assert!(m.pos == m.len || m.ascii_until_end);
        let data_end = ref_ascii_encode(&m.input[m.pos..m.len], &mut sym, m.n_out);
        if let Some(cap) = m.first_fit(data_end) {
            let d = ref_decode_c40(&sym, cap, data_end, text);
            assert!(d.ok && d.n == m.len);
            let mut j = 0;
            while j < m.len {
                assert!(d.out[j] == m.input[j]);
                j += 1;
            }
        }
    }
}

#[kani::proof]
#[kani::unwind(8)]
fn c40_encode_run_of_1() {
    check_run(false, 1);
}

#[kani::proof]
#[kani::unwind(8)]
fn text_encode_run_of_1() {
    check_run(true, 1);
}

#[kani::proof]
#[kani::unwind(10)]
fn c40_encode_run_of_2() {
    check_run(false, 2);
}

#[kani::proof]
#[kani::unwind(10)]
fn text_encode_run_of_2() {
    check_run(true, 2);
}

#[kani::proof]
#[kani::unwind(12)]
fn c40_encode_run_of_3() {
    check_run(false, 3);
}

#[kani::proof]
#[kani::unwind(12)]
fn text_encode_run_of_3() {
    check_run(true, 3);
}

#[kani::proof]
#[kani::unwind(14)]
fn c40_encode_run_of_4() {
    check_run(false, 4);
}

#[kani::proof]
#[kani::unwind(14)]
fn text_encode_run_of_4() {
    check_run(true, 4);
}
