// K-GEN: each of the 25 hard-coded generator polynomials equals prod_{i=1..k} (x + 2^i)
// over GF(256)/0x12D (ISO/IEC 16022 Annex E), computed with independent arithmetic,
// and generator(k) returns the polynomial of degree k.  Complete: the table is
// finite and every entry is evaluated.
use super::*;
#[path = "gfref.rs"]
mod gfref;
use gfref::*;

fn check_generator(k: usize) {
    // g(x) = prod (x + 2^i), coefficients highest degree first, g[0] = 1
    let mut g = [0u8; 69];
    g[0] = 1;
    let mut deg = 0usize;
    let mut i = 1usize;
    while i <= k {
        let r = ref_pow2(i as u16);
        // multiply by (x + r): new[j] = old[j] + r * old[j-1]
        let mut j = deg + 1;
        while j >= 1 {
            g[j] = g[j] ^ ref_mul(r, g[j - 1]);
            j -= 1;
        }
        deg += 1;
        i += 1;
    }
    let table = generator(k);
    assert!(table.len() == k + 1);
    let mut j = 0usize;
    while j <= k {
        assert!(table[j] == g[j]);
        j += 1;
    }
}

macro_rules! gen_harness {
    ($name:ident, $k:expr, $unw:expr) => {
        #[kani::proof]
        #[kani::unwind($unw)]
        fn $name() {
            check_generator($k);
        }
    };
}
gen_harness!(generator_k5, 5, 9);
gen_harness!(generator_k7, 7, 10);
gen_harness!(generator_k10, 10, 13);
gen_harness!(generator_k11, 11, 14);
gen_harness!(generator_k12, 12, 15);
gen_harness!(generator_k14, 14, 17);
gen_harness!(generator_k15, 15, 18);
gen_harness!(generator_k18, 18, 21);
gen_harness!(generator_k20, 20, 23);
gen_harness!(generator_k22, 22, 25);
gen_harness!(generator_k24, 24, 27);
gen_harness!(generator_k27, 27, 30);
gen_harness!(generator_k28, 28, 31);
gen_harness!(generator_k32, 32, 35);
gen_harness!(generator_k34, 34, 37);
gen_harness!(generator_k36, 36, 39);
gen_harness!(generator_k38, 38, 41);
gen_harness!(generator_k41, 41, 44);
gen_harness!(generator_k42, 42, 45);
gen_harness!(generator_k46, 46, 49);
gen_harness!(generator_k48, 48, 51);
gen_harness!(generator_k50, 50, 53);
gen_harness!(generator_k56, 56, 59);
gen_harness!(generator_k62, 62, 65);
gen_harness!(generator_k68, 68, 71);

// the table has exactly these 25 degrees (so every symbol size finds its polynomial: see V-SYM for the ecc column)
#[kani::proof]
#[kani::unwind(26)]
fn generator_table_degrees() {
    let degs = [5usize, 7, 10, 11, 12, 14, 15, 18, 20, 22, 24, 27, 28, 32, 34, 36, 38, 41, 42, 46, 48, 50, 56, 62, 68];
    assert!(GENERATOR_POLYNOMIALS.len() == 25);
    let mut i = 0;
    while i < 25 {
        assert!(GENERATOR_POLYNOMIALS[i].len() == degs[i] + 1);
        i += 1;
    }
}
