// K-FILTER1 (bounded: lists of ONE symbol size, every one of the 48; every range end, all six range shapes):
// the list filters of SymbolList (src/symbol_size.rs) keep the member exactly when it satisfies the predicate of the
// property: width / height inside the range by the mathematical definition of the six RangeBounds shapes
// (lo..hi, lo..=hi, lo.., ..hi, ..=hi, ..), is_square / !is_square with is_square == (width == height) of ISO Table 7.
// Lists of two sizes did not finish (kani/attempted_k_filter.rs.txt): that the filter treats each member independently of
// the others is BTreeSet::retain's documented behaviour (A-RETAIN) and is not proved.
use super::*;

fn pick() -> SymbolSize {
    let i: usize = kani::any();
    kani::assume(i < 48);
    SYMBOL_SIZES[i]
}

fn inside(shape: u8, lo: usize, hi: usize, x: usize) -> bool {
    match shape {
        0 => lo <= x && x < hi,
        1 => lo <= x && x <= hi,
        2 => lo <= x,
        3 => x < hi,
        4 => x <= hi,
        _ => true,
    }
}

fn check_kept(out: &SymbolList, a: SymbolSize, want: bool) {
    assert!(out.contains(&a) == want);
    assert!(out.is_empty() == !want);
}

#[kani::proof]
#[kani::unwind(4)]
fn filter1_height_ranges() {
    let a = pick();
    let list = SymbolList::from(a);
    let shape: u8 = kani::any();
    kani::assume(shape < 6);
    let lo: usize = kani::any();
    let hi: usize = kani::any();
    let out = match shape {
        0 => list.enforce_height_in(lo..hi),
        1 => list.enforce_height_in(lo..=hi),
        2 => list.enforce_height_in(lo..),
        3 => list.enforce_height_in(..hi),
        4 => list.enforce_height_in(..=hi),
        _ => list.enforce_height_in(..),
    };
    check_kept(&out, a, inside(shape, lo, hi, a.block_setup().height));
    kani::cover!(shape == 0 && hi == a.block_setup().height && lo < hi);
}

#[kani::proof]
#[kani::unwind(4)]
fn filter1_width_ranges() {
    let a = pick();
    let list = SymbolList::from(a);
    let shape: u8 = kani::any();
    kani::assume(shape < 6);
    let lo: usize = kani::any();
    let hi: usize = kani::any();
    let out = match shape {
        0 => list.enforce_width_in(lo..hi),
        1 => list.enforce_width_in(lo..=hi),
        2 => list.enforce_width_in(lo..),
        3 => list.enforce_width_in(..hi),
        4 => list.enforce_width_in(..=hi),
        _ => list.enforce_width_in(..),
    };
    check_kept(&out, a, inside(shape, lo, hi, a.block_setup().width));
    kani::cover!(shape == 1 && hi == a.block_setup().width && lo == hi);
}

#[kani::proof]
#[kani::unwind(4)]
fn filter1_square_rectangular() {
    let a = pick();
    let setup = a.block_setup();
    let square = setup.width == setup.height;
    let sq = SymbolList::from(a).enforce_square();
    check_kept(&sq, a, square);
    let re = SymbolList::from(a).enforce_rectangular();
    check_kept(&re, a, !square);
}
