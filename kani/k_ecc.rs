// K-ECC / K-SYN / K-EE-WIRE: the Reed-Solomon encoder of src/errorcode/mod.rs.
use super::*;
#[path = "gfref.rs"]
mod gfref;
use gfref::*;

// evaluate the polynomial with coefficients c (highest degree first) at x, independent arithmetic (Horner)
fn ref_eval(c: &[u8], x: u8) -> u8 {
    let mut acc = 0u8;
    let mut i = 0;
    while i < c.len() {
        acc = ref_mul(acc, x) ^ c[i];
        i += 1;
    }
    acc
}

// ---- K-ECC (bounded in the number n of data symbols): ecc_block leaves the remainder of d(x)*x^k mod g(x),
// i.e. the block d || ecc has the roots 2^1..2^k ----
fn check_ecc_block<const N: usize, const K: usize, const NK: usize>() {
    let data: [u8; N] = kani::any();
    let g = generator(K);
    let mut ecc = [0u8; 69];
    ecc_block(data.iter().copied(), g, &mut ecc[..K + 1]);
    let mut block = [0u8; NK];
    let mut i = 0;
    while i < N {
        block[i] = data[i];
        i += 1;
    }
    while i < NK {
        block[i] = ecc[i - N];
        i += 1;
    }
    let mut r = 1u16;
    while r <= K as u16 {
        assert!(ref_eval(&block, ref_pow2(r)) == 0);
        r += 1;
    }
}
#[kani::proof]
#[kani::unwind(10)]
fn ecc_block_k5_n2() { check_ecc_block::<2, 5, 7>(); }
#[kani::proof]
#[kani::unwind(11)]
fn ecc_block_k7_n2() { check_ecc_block::<2, 7, 9>(); }
#[kani::proof]
#[kani::unwind(14)]
fn ecc_block_k10_n2() { check_ecc_block::<2, 10, 12>(); }
#[kani::proof]
#[kani::unwind(16)]
fn ecc_block_k12_n2() { check_ecc_block::<2, 12, 14>(); }

// (a direct syndrome check through encode_error on 10x10 and n = 3 did not finish in 14 min and are not run)
