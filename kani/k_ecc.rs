// K-ECC / K-SYN / K-EE-WIRE: the Reed-Solomon encoder of src/errorcode/mod.rs.
use super::*;
#[path = "gfref.rs"]
mod gfref;
use gfref::*;

// evaluate the polynomial with coefficients c (highest degree first) at x, independent arithmetic (Horner)
fn ref_eval(c: &[u8], x: u8) -> u8 {
    let mut acc = 0u8;
    let mut i = 0;
    while i < c.len() {
        acc = ref_mul(acc, x) ^ c[i];
        i += 1;
    }
    acc
}

// ---- K-ECC (bounded in the number n of data symbols): ecc_block leaves the remainder of d(x)*x^k mod g(x),
// i.e. the block d || ecc has the roots 2^1..2^k ----
fn check_ecc_block<const N: usize, const K: usize, const NK: usize>() {
    let data: [u8; N] = kani::any();
    let g = generator(K);
    let mut ecc = [0u8; 69];
    ecc_block(data.iter().copied(), g, &mut ecc[..K + 1]);
    let mut block = [0u8; NK];
    let mut i = 0;
    while i < N {
        block[i] = data[i];
        i += 1;
    }
    while i < NK {
        block[i] = ecc[i - N];
        i += 1;
    }
    let mut r = 1u16;
    while r <= K as u16 {
        assert!(ref_eval(&block, ref_pow2(r)) == 0);
        r += 1;
    }
}
#[kani::proof]
#[kani::unwind(10)]
fn ecc_block_k5_n2() { check_ecc_block::<2, 5, 7>(); }
#[kani::proof]
#[kani::unwind(11)]
fn ecc_block_k7_n2() { check_ecc_block::<2, 7, 9>(); }
#[kani::proof]
#[kani::unwind(14)]
fn ecc_block_k10_n2() { check_ecc_block::<2, 10, 12>(); }
#[kani::proof]
#[kani::unwind(16)]
fn ecc_block_k12_n2() { check_ecc_block::<2, 12, 14>(); }

// (a direct syndrome check through encode_error on 10x10 and n = 3 did not finish in 14 min and are not run)

// ---- K-ECC-STEP (complete per generator degree K: every state, every data symbol) ----
// One pass of the loop of ecc_block is one step of the long division of D(x)*x^K by the monic generator g:
//     R'(x) = x*R(x) + a*x^K - (r_top + a)*g(x)            (R held in ecc[0..K], ecc[0] = coefficient of x^(K-1))
// coefficient by coefficient, with independent field arithmetic:
//     ecc'[j] = ecc[j+1] + (ecc[0] + a) * g[j+1]   (j = 0..K-1),   ecc[K] = 0 untouched,   g[0] = 1.
// Proved here on the REAL ecc_block called with ONE data symbol, for EVERY state ecc[0..K] and every data symbol a,
// for each of the 25 generator degrees.  What this gives for every number n of data symbols (stated argument, not
// machine-checked): ecc_block over n symbols is the n-fold composition of this step (its only loop-carried state is
// the ecc slice; encode_error zeroes it before every block), so ecc = D(x)*x^K mod g, and since g = prod (x + 2^i)
// (K-GEN) the block D(x)*x^K + R(x) vanishes at 2^1..2^K.  K-ECC (n = 2, bounded) checks the roots end to end; the
// harnesses ecc_root_step_* below check the root form of the invariant (R(rho) = D(rho)*rho^K is kept by a step,
// for every root rho) directly for the two smallest degrees.
fn check_ecc_step<const K: usize>() {
    let g = generator(K);
    assert!(g.len() == K + 1 && g[0] == 1);
    let mut ecc = [0u8; 69];
    let mut j = 0;
    while j < K {
        ecc[j] = kani::any();
        j += 1;
    }
    let old = ecc;
    let a: u8 = kani::any();
    ecc_block(core::iter::once(a), g, &mut ecc[..K + 1]);
    assert!(ecc[K] == 0);
    let top = old[0] ^ a;
    let mut j = 0;
    while j < K {
        assert!(ecc[j] == old[j + 1] ^ ref_mul(top, g[j + 1]));
        j += 1;
    }
    kani::cover!(old[0] == 0 && a == 0 && old[1] != 0);
}
macro_rules! ecc_step {
    ($name:ident, $k:expr) => {
        #[kani::proof]
        #[kani::unwind(70)]
        fn $name() { check_ecc_step::<$k>(); }
    };
}
ecc_step!(ecc_step_k5, 5);
ecc_step!(ecc_step_k7, 7);
ecc_step!(ecc_step_k10, 10);
ecc_step!(ecc_step_k11, 11);
ecc_step!(ecc_step_k12, 12);
ecc_step!(ecc_step_k14, 14);
ecc_step!(ecc_step_k15, 15);
ecc_step!(ecc_step_k18, 18);
ecc_step!(ecc_step_k20, 20);
ecc_step!(ecc_step_k22, 22);
ecc_step!(ecc_step_k24, 24);
ecc_step!(ecc_step_k27, 27);
ecc_step!(ecc_step_k28, 28);
ecc_step!(ecc_step_k32, 32);
ecc_step!(ecc_step_k34, 34);
ecc_step!(ecc_step_k36, 36);
ecc_step!(ecc_step_k38, 38);
ecc_step!(ecc_step_k41, 41);
ecc_step!(ecc_step_k42, 42);
ecc_step!(ecc_step_k46, 46);
ecc_step!(ecc_step_k48, 48);
ecc_step!(ecc_step_k50, 50);
ecc_step!(ecc_step_k56, 56);
ecc_step!(ecc_step_k62, 62);
ecc_step!(ecc_step_k68, 68);

// root form of the invariant, for every root rho = 2^r of the generator: R(rho) = D(rho)*rho^K is kept by one step
// (dval stands for D(rho); D' = D*x + a)
fn check_ecc_root_step<const K: usize>() {
    let g = generator(K);
    let mut ecc = [0u8; 69];
    let mut j = 0;
    while j < K {
        ecc[j] = kani::any();
        j += 1;
    }
    let old = ecc;
    let a: u8 = kani::any();
    ecc_block(core::iter::once(a), g, &mut ecc[..K + 1]);
    let mut r = 1u16;
    while r <= K as u16 {
        let rho = ref_pow2(r);
        let mut rho_k = 1u8; // rho^K
        let mut e = 0;
        while e < K {
            rho_k = ref_mul(rho_k, rho);
            e += 1;
        }
        let dval: u8 = kani::any();
        if ref_eval(&old[..K], rho) == ref_mul(dval, rho_k) {
            assert!(ref_eval(&ecc[..K], rho) == ref_mul(ref_mul(dval, rho) ^ a, rho_k));
        }
        r += 1;
    }
}
#[kani::proof]
#[kani::unwind(10)]
fn ecc_root_step_k5() { check_ecc_root_step::<5>(); }
#[kani::proof]
#[kani::unwind(10)]
fn ecc_root_step_k7() { check_ecc_root_step::<7>(); }
