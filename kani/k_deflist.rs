// K-DEFLIST: the default symbol list is exactly the 30 sizes of ISO/IEC 16022 (no DMRE size), the extended list
// exactly all 48 (src/symbol_size.rs: Default for SymbolList, with_extended_rectangles, all).
use super::*;

fn pick() -> SymbolSize {
    let i: usize = kani::any();
    kani::assume(i < 48);
    SYMBOL_SIZES[i]
}

#[kani::proof]
#[kani::unwind(50)]
fn default_list_is_the_iso_16022_sizes() {
    let l = SymbolList::default();
    let s = pick();
    assert!(l.contains(&s) == !s.is_dmre());
}

#[kani::proof]
#[kani::unwind(50)]
fn extended_list_is_all_48() {
    let l = SymbolList::with_extended_rectangles();
    let s = pick();
    assert!(l.contains(&s));
    let a = SymbolList::all();
    assert!(a.contains(&s));
}
