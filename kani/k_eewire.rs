// K-EE-WIRE (modular): the interleaving done by encode_error, with ecc_block replaced
// by a position-sensitive tagging function.  For the given size and ALL data
// vectors: block b is fed data[b], data[b+B], data[b+2B], ... in this order, with the
// generator of degree k, and its k results land at b, b+B, ... of the returned
// vector, whose length is k*B.  (144x144: blocks 0..7 get 156, blocks 8, 9 get 155.)
use super::*;

// stand-in for ecc_block: ecc[j] = sum_i (i+1)*data_i + 7*j + len(g)   (wrapping): depends on order and length
fn ecc_block_tag<T: Iterator<Item = u8>>(data: T, g: &[u8], ecc: &mut [u8]) {
    let mut acc: u8 = 0;
    let mut i: u8 = 0;
    for a in data {
        i = i.wrapping_add(1);
        acc = acc.wrapping_add(a.wrapping_mul(i));
    }
    let k = g.len() - 1;
    let mut j = 0;
    while j < k {
        ecc[j] = acc.wrapping_add((7 * j) as u8).wrapping_add(g.len() as u8);
        j += 1;
    }
}

fn check_wiring<const N: usize>(size: SymbolSize, blocks: usize, k: usize) {
    let data: [u8; N] = kani::any();
    let out = encode_error(&data, size);
    assert!(out.len() == blocks * k);
    let mut b = 0;
    while b < blocks {
        let mut acc: u8 = 0;
        let mut i: u8 = 0;
        let mut p = b;
        while p < N {
            i = i.wrapping_add(1);
            acc = acc.wrapping_add(data[p].wrapping_mul(i));
            p += blocks;
        }
        let mut j = 0;
        while j < k {
            assert!(out[b + j * blocks] == acc.wrapping_add((7 * j) as u8).wrapping_add((k + 1) as u8));
            j += 1;
        }
        b += 1;
    }
}

macro_rules! wire {
    ($name:ident, $size:ident, $n:expr, $blocks:expr, $k:expr, $unw:expr) => {
        #[kani::proof]
        #[kani::stub(ecc_block, ecc_block_tag)]
        #[kani::unwind($unw)]
        fn $name() {
            check_wiring::<$n>(SymbolSize::$size, $blocks, $k);
        }
    };
}
wire!(wire_square10, Square10, 3, 1, 5, 8);
wire!(wire_rect8x18, Rect8x18, 5, 1, 7, 10);
wire!(wire_square26, Square26, 44, 1, 28, 46);
wire!(wire_square52, Square52, 204, 2, 42, 104);
wire!(wire_square64, Square64, 280, 2, 56, 142);
wire!(wire_square72, Square72, 368, 4, 36, 94);
wire!(wire_square104, Square104, 816, 6, 56, 138);
wire!(wire_square132, Square132, 1304, 8, 62, 165);
wire!(wire_square144, Square144, 1558, 10, 62, 158);
wire!(wire_square80, Square80, 456, 4, 48, 116);
wire!(wire_square88, Square88, 576, 4, 56, 146);
wire!(wire_square96, Square96, 696, 4, 68, 176);
wire!(wire_square120, Square120, 1050, 6, 68, 177);

// 144x144 is the only size whose data length (1558) is not a multiple of its block count (10): blocks 0..7 get 156
// codewords, blocks 8 and 9 get 155.  The full harness (wire_square144) needs more than 80 minutes; this one keeps
// the first 24 and the last 28 data codewords symbolic and the rest 0 (bounded: not all data vectors), which still
// exercises the routing of every block's first and last elements, for all their values.
#[kani::proof]
#[kani::stub(ecc_block, ecc_block_tag)]
#[kani::unwind(158)]
fn wire_square144_ends() {
    let head: [u8; 24] = kani::any();
    let tail: [u8; 28] = kani::any();
    let mut data = [0u8; 1558];
    let mut i = 0;
    while i < 24 {
        data[i] = head[i];
        i += 1;
    }
    let mut i = 0;
    while i < 28 {
        data[1558 - 28 + i] = tail[i];
        i += 1;
    }
    let blocks = 10;
    let k = 62;
    let out = encode_error(&data, SymbolSize::Square144);
    assert!(out.len() == blocks * k);
    let mut b = 0;
    while b < blocks {
        let mut acc: u8 = 0;
        let mut i: u8 = 0;
        let mut p = b;
        while p < 1558 {
            i = i.wrapping_add(1);
            acc = acc.wrapping_add(data[p].wrapping_mul(i));
            p += blocks;
        }
        let mut j = 0;
        while j < k {
            assert!(out[b + j * blocks] == acc.wrapping_add((7 * j) as u8).wrapping_add((k + 1) as u8));
            j += 1;
        }
        b += 1;
    }
}
