// A recording EncodingContext for leaf harnesses: keeps what is pushed.
pub struct Rec {
    pub cw: alloc::vec::Vec<u8>,
}
impl super::EncodingContext for Rec {
    fn maybe_switch_mode(&mut self) -> Result<bool, super::DataEncodingError> { Ok(false) }
    fn symbol_size_left(&mut self, _extra_codewords: usize) -> Option<usize> { None }
    fn eat(&mut self) -> Option<u8> { None }
    fn backup(&mut self, _steps: usize) {}
    fn rest(&self) -> &[u8] { &[] }
    fn push(&mut self, ch: u8) { self.cw.push(ch); }
    fn replace(&mut self, index: usize, ch: u8) { self.cw[index] = ch; }
    fn insert(&mut self, index: usize, ch: u8) { self.cw.insert(index, ch); }
    fn codewords(&self) -> &[u8] { &self.cw }
    fn set_ascii_until_end(&mut self) {}
}
