// K-PLACE-RW / K-RENDER: codewords <-> mapping matrix <-> rendered symbol (src/placement.rs).
use super::*;

// K-PLACE-RW (bounded: one size, all codeword vectors): writing the codewords and reading
// them back is the identity, bit 1 of a codeword is its most significant bit
#[kani::proof]
fn place_write_read_10x10() {
    let cw: [u8; 8] = kani::any();
    let m = MatrixMap::<bool>::new_with_codewords(&cw, SymbolSize::Square10);
    let back = m.codewords();
    assert!(back.len() == 8);
    let mut i = 0;
    while i < 8 {
        assert!(back[i] == cw[i]);
        i += 1;
    }
    m.traverse(|idx, bits| {
        let mut b = 0;
        while b < 8 {
            assert!(bits[b] == ((cw[idx] >> (7 - b)) & 1 == 1));
            b += 1;
        }
    });
}

// K-RENDER (per size, ALL matrix contents): bitmap() draws, for every region, the solid L (left column and
// bottom row dark), the alternating clock tracks (top row dark on even columns, right column dark on odd
// rows), and copies the content into the regions (ISO/IEC 16022 5.6 / Figure 1; region geometry: Table 7)
fn check_render(size: SymbolSize, rows: usize, cols: usize, rrows: usize, rcols: usize) {
    let mut m = MatrixMap::<bool>::new(size);
    let n = m.entries.len();
    let mut i = 0;
    while i < n {
        m.entries[i] = kani::any();
        i += 1;
    }
    let bm = m.bitmap();
    assert!(bm.width == cols);
    assert!(bm.bits.len() == rows * cols);
    let cw = cols / (rcols + 2) * rcols; // content width
    let mut r = 0;
    while r < rows {
        let mut c = 0;
        while c < cols {
            let rr = r % (rrows + 2);
            let cc = c % (rcols + 2);
            let px = bm.bits[r * cols + c];
            if cc == 0 || rr == rrows + 1 {
                assert!(px);
            } else if rr == 0 {
                assert!(px == (cc % 2 == 0));
            } else if cc == rcols + 1 {
                assert!(px == (rr % 2 == 1));
            } else {
                let ci = (r / (rrows + 2)) * rrows + rr - 1;
                let cj = (c / (rcols + 2)) * rcols + cc - 1;
                assert!(px == m.entries[ci * cw + cj]);
            }
            c += 1;
        }
        r += 1;
    }
}
#[kani::proof]
fn render_square10() { check_render(SymbolSize::Square10, 10, 10, 8, 8); }
#[kani::proof]
fn render_rect8x32() { check_render(SymbolSize::Rect8x32, 8, 32, 6, 14); }
#[kani::proof]
fn render_square32() { check_render(SymbolSize::Square32, 32, 32, 14, 14); }
#[kani::proof]
fn render_rect8x64() { check_render(SymbolSize::Rect8x64, 8, 64, 6, 14); }
