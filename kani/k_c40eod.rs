// K-C40-EOD (bounded): the whole C40 encoder incl. its end-of-data rules (encode_generic, handle_end;
// ISO/IEC 16022 5.2.5.2 a-d), on ALL inputs of at most N bytes and every remaining symbol capacity, with
// a one-symbol context without planned switches: what it writes (+ the ASCII tail and padding the driver
// would add) is read back as the input by a reference C40/ASCII decoder transcribed from the standard.
use super::*;

struct Ctx<'a> {
    input: &'a [u8],
    pos: usize,
    cw: alloc::vec::Vec<u8>,
    cap: usize,
    ascii_tail: bool,
}
impl<'a> EncodingContext for Ctx<'a> {
    fn maybe_switch_mode(&mut self) -> Result<bool, DataEncodingError> { Ok(false) }
    fn symbol_size_left(&mut self, extra: usize) -> Option<usize> {
        let used = self.cw.len() + extra;
        if used <= self.cap { Some(self.cap - used) } else { None }
    }
    fn eat(&mut self) -> Option<u8> {
        if self.pos < self.input.len() { self.pos += 1; Some(self.input[self.pos - 1]) } else { None }
    }
    fn backup(&mut self, steps: usize) { self.pos -= steps; }
    fn rest(&self) -> &[u8] { &self.input[self.pos..] }
    fn push(&mut self, ch: u8) { self.cw.push(ch); }
    fn replace(&mut self, index: usize, ch: u8) { self.cw[index] = ch; }
    fn insert(&mut self, index: usize, ch: u8) { self.cw.insert(index, ch); }
    fn codewords(&self) -> &[u8] { &self.cw }
    fn set_ascii_until_end(&mut self) { self.ascii_tail = true; }
}

// ---- reference decoder (ISO/IEC 16022 5.2.3, 5.2.5, Table 6), for a symbol of exactly s.len() codewords ----
fn ref_c40_then_ascii(s: &[u8], out: &mut [u8; 8]) -> Option<usize> {
    let mut n = 0usize;
    let mut i = 0usize;
    let mut shift = 0u8;
    let mut upper = false;
    // C40 part
    loop {
        if s.len() - i <= 1 { break; }
        if s[i] == 254 { i += 1; break; }
        let v = (s[i] as u32) * 256 + s[i + 1] as u32;
        if v == 0 { return None; }
        let v = v - 1;
        let vals = [(v / 1600) as u8, ((v % 1600) / 40) as u8, (v % 40) as u8];
        let mut k = 0;
        while k < 3 {
            let c = vals[k];
            let mut emit: Option<u8> = None;
            if shift == 0 {
                if c <= 2 { shift = c + 1; }
                else if c == 3 { emit = Some(32); }
                else if c <= 13 { emit = Some(48 + c - 4); }
                else if c <= 39 { emit = Some(65 + c - 14); }
                else { return None; }
            } else if shift == 1 {
                if c > 31 { return None; }
                emit = Some(c); shift = 0;
            } else if shift == 2 {
                if c <= 14 { emit = Some(33 + c); }
                else if c <= 21 { emit = Some(58 + c - 15); }
                else if c <= 26 { emit = Some(91 + c - 22); }
                else if c == 30 { upper = true; }
                else { return None; }
                shift = 0;
            } else {
                if c > 31 { return None; }
                emit = Some(96 + c); shift = 0;
            }
            if let Some(t) = emit {
                if n >= 8 { return None; }
                out[n] = if upper { t + 128 } else { t };
                upper = false;
                n += 1;
            }
            k += 1;
        }
        i += 2;
    }
    if s.len() - i == 1 && s[i] == 254 { i += 1; }
    // ASCII part
    let mut up = false;
    while i < s.len() {
        let ch = s[i];
        if ch == 129 {
            // the rest must be correctly randomised pads
            let mut p = i + 1;
            while p < s.len() {
                let pr = ((149 * (p + 2)) % 253) + 1; // +1 for 1-based, +1 for the latch codeword in front
                let t = s[p] as i32 - pr as i32;
                let d = if t >= 1 { t } else { t + 254 };
                if d != 129 { return None; }
                p += 1;
            }
            break;
        }
        if up {
            if !(ch >= 1 && ch <= 128) { return None; }
            if n >= 8 { return None; }
            out[n] = ch + 127; n += 1; up = false;
        } else if ch >= 1 && ch <= 128 {
            if n >= 8 { return None; }
            out[n] = ch - 1; n += 1;
        } else if ch >= 130 && ch <= 229 {
            if n + 1 >= 8 { return None; }
            out[n] = 48 + (ch - 130) / 10; out[n + 1] = 48 + (ch - 130) % 10; n += 2;
        } else if ch == 235 {
            up = true;
        } else {
            return None;
        }
        i += 1;
    }
    if up { return None; }
    Some(n)
}

fn check_c40_eod<const N: usize>() {
    let data: [u8; N] = kani::any();
    let len: usize = kani::any();
    kani::assume(len >= 1 && len <= N);
    let cap: usize = kani::any();
    kani::assume(cap <= 2 * N + 4);
    let mut ctx = Ctx { input: &data[..len], pos: 0, cw: alloc::vec::Vec::new(), cap, ascii_tail: false };
    let r = encode(&mut ctx);
    if r.is_err() {
        return; // does not fit: refusing is allowed
    }
    // what the driver does next: the ASCII encoder for what is left, then padding
    let mut in_ascii = ctx.ascii_tail;
    if ctx.pos < len {
        assert!(ctx.ascii_tail); // characters may only be left over for "ASCII until the end"
        let r2 = super::super::ascii::encode(&mut ctx);
        assert!(r2.is_ok());
        in_ascii = true;
    }
    assert!(ctx.pos == len);
    if ctx.cw.len() > cap {
        return; // the driver reports TooMuchOrIllegalData (symbol_for fails)
    }
    if ctx.cw.len() < cap {
        if !in_ascii { ctx.cw.push(254); }
        if ctx.cw.len() < cap { ctx.cw.push(129); }
        while ctx.cw.len() < cap {
            let pos = ctx.cw.len() + 2; // 1-based position incl. the latch codeword in front
            let t = 129 + ((149 * pos) % 253) + 1;
            ctx.cw.push(if t <= 254 { t as u8 } else { (t - 254) as u8 });
        }
    }
    let mut out = [0u8; 8];
    let n = ref_c40_then_ascii(&ctx.cw, &mut out);
    assert!(n == Some(len));
    let mut i = 0;
    while i < len {
        assert!(out[i] == data[i]);
        i += 1;
    }
}

#[kani::proof]
#[kani::unwind(12)]
fn c40_encode_eod_up_to_2() { check_c40_eod::<2>(); }

#[kani::proof]
#[kani::unwind(14)]
fn c40_encode_eod_up_to_3() { check_c40_eod::<3>(); }
