// K-LEAF-C40: value layer of the C40 encoder (src/encodation/c40.rs) against
// ISO/IEC 16022 Table 6 (C40 character set), for ALL byte values / value triples.
use super::*;
#[path = "recctx.rs"]
mod recctx;
use recctx::Rec;

// ISO/IEC 16022 Table 6, C40 column: decode a value sequence for ONE character
// (basic value, or shift + value, optionally preceded by Shift 2 + Upper Shift)
fn iso_c40_char(vals: &[u8]) -> Option<u8> {
    let (upper, v) = if vals.len() >= 2 && vals[0] == 1 && vals[1] == 30 { (true, &vals[2..]) } else { (false, vals) };
    let base = if v.len() == 1 {
        match v[0] {
            3 => 32u8,
            4..=13 => 48 + (v[0] - 4),
            14..=39 => 65 + (v[0] - 14),
            _ => return None,
        }
    } else if v.len() == 2 {
        match (v[0], v[1]) {
            (0, x) if x <= 31 => x,
            (1, x) if x <= 14 => 33 + x,
            (1, x) if x >= 15 && x <= 21 => 58 + (x - 15),
            (1, x) if x >= 22 && x <= 26 => 91 + (x - 22),
            (2, x) if x <= 31 => 96 + x,
            _ => return None,
        }
    } else {
        return None;
    };
    if upper { Some(base + 128) } else { Some(base) }
}

#[kani::proof]
#[kani::unwind(8)]
fn c40_to_vals_all_bytes() {
    let ch: u8 = kani::any();
    let mut buf = ArrayVec::<u8, 6>::new();
    let n = to_vals(&mut buf, ch, low_ascii_to_c40_symbols);
    assert!(n == buf.len());
    assert!(iso_c40_char(&buf) == Some(ch));
    // the planner's view of the same table
    assert!(val_size(ch) as usize == buf.len());
    assert!(in_base_set(ch) == (ch == 32 || (ch >= 48 && ch <= 57) || (ch >= 65 && ch <= 90)));
    assert!(in_base_set(ch) == (buf.len() == 1));
}

#[kani::proof]
fn c40_write_three_values_all_triples() {
    let c1: u8 = kani::any();
    let c2: u8 = kani::any();
    let c3: u8 = kani::any();
    kani::assume(c1 < 40 && c2 < 40 && c3 < 40);
    let mut ctx = Rec { cw: alloc::vec::Vec::new() };
    write_three_values(&mut ctx, c1, c2, c3);
    assert!(ctx.cw.len() == 2);
    // 5.2.5.2: the pair is (1600*C1 + 40*C2 + C3 + 1) split into high and low byte ...
    let v: u32 = 1600 * c1 as u32 + 40 * c2 as u32 + c3 as u32 + 1;
    assert!(ctx.cw[0] as u32 == v / 256 && ctx.cw[1] as u32 == v % 256);
    // ... and unpacking per the standard gives the three values back
    let w = ctx.cw[0] as u32 * 256 + ctx.cw[1] as u32 - 1;
    assert!(w / 1600 == c1 as u32 && (w % 1600) / 40 == c2 as u32 && w % 40 == c3 as u32);
    // never the unlatch codeword in first position
    assert!(ctx.cw[0] != 254);
}
