// K-DG (modular, bounded slice lengths): the plumbing of decode_gen in
// src/errorcode/decoding/syndrome_based.rs.  The algebraic stages are replaced by
// their shape contracts (assumed contract A-RS-ALG): the syndrome evaluation and the
// root search are stubbed, the locator and error-value stages are the function
// parameters F and G supplied by the harness.  What is proved about the REAL
// decode_gen, for strides 1..3 and every residue of the slice lengths modulo the
// stride (what block index >= 1 and the 156/155 split of 144x144 produce):
//   (i)   no panic: no index out of bounds, no arithmetic overflow, no failed assertion;
//   (ii)  frame: only elements of the strided views data[0], data[s], .. / error[0], error[s], ..
//         are written, and only those named by an error location;
//   (iii) mapping: location X = 2^i changes element n-1-i of the block (data part first,
//         then error part) by exactly the error value;
//   (iv)  all syndromes zero => Ok and nothing written.
use super::*;

static mut XLOC: [u8; 2] = [0; 2];
static mut EVAL: [u8; 2] = [0; 2];
static mut NE: usize = 0;
static mut NONZERO: bool = false;

// stand-in for super::primitive_element_evaluation: any syndromes, any verdict
fn pee_stub<T, I>(_c: I, out: &mut [GF]) -> bool
where
    T: Into<GF> + Copy,
    I: Iterator<Item = T> + DoubleEndedIterator,
{
    let mut i = 0;
    while i < out.len() {
        out[i] = GF(kani::any());
        i += 1;
    }
    unsafe { NONZERO }
}

// stand-in for super::chien_search: some number of non-zero, pairwise distinct roots
fn chien_stub<T: Into<GF> + Copy>(_c: &[T]) -> Vec<GF> {
    let m: usize = kani::any();
    kani::assume(m <= 2);
    let a: u8 = kani::any();
    let b: u8 = kani::any();
    kani::assume(a != 0 && b != 0 && a != b);
    let mut v = Vec::new();
    if m >= 1 {
        v.push(GF(a));
    }
    if m >= 2 {
        v.push(GF(b));
    }
    v
}

fn check_decode_gen(stride: usize) {
    let dl: usize = kani::any();
    let el: usize = kani::any();
    kani::assume(dl >= 1 && dl <= 5 && el >= 2 && el <= 6);
    let mut dbuf: [u8; 5] = kani::any();
    let mut ebuf: [u8; 6] = kani::any();
    let d0 = dbuf;
    let e0 = ebuf;
    let n_data = (dl + stride - 1) / stride;
    let n_error = (el + stride - 1) / stride;
    let err_len = n_error;
    kani::assume(err_len >= 2);
    let n = n_data + n_error;
    let nonzero: bool = kani::any();
    let ne: usize = kani::any();
    kani::assume(ne >= 1 && ne <= err_len / 2 && ne <= 2);
    let x0: u8 = kani::any();
    let x1: u8 = kani::any();
    let v0: u8 = kani::any();
    let v1: u8 = kani::any();
    kani::assume(x0 != 0 && x1 != 0 && x0 != x1);
    unsafe {
        NONZERO = nonzero;
        NE = ne;
        XLOC = [x0, x1];
        EVAL = [v0, v1];
    }
    let locator_fails: bool = kani::any();
    // F: a locator of degree ne (monic, arbitrary coefficients) or an error
    let f = |_syn: &[GF]| -> Result<Vec<GF>, ErrorDecodingError> {
        if locator_fails {
            return Err(ErrorDecodingError::TooManyErrors);
        }
        let mut w = Vec::new();
        let mut i = 0;
        while i < unsafe { NE } {
            w.push(GF(kani::any()));
            i += 1;
        }
        w.push(GF(1));
        Ok(w)
    };
    // G: turns the roots into error locations and leaves the error values in syn[..e]
    let g = |x_loc: &mut [GF], _lambda: &[GF], syn: &mut [GF]| {
        let mut i = 0;
        while i < x_loc.len() {
            unsafe {
                x_loc[i] = GF(XLOC[i]);
                syn[i] = GF(EVAL[i]);
            }
            i += 1;
        }
    };
    let r = decode_gen(&mut dbuf[..dl], &mut ebuf[..el], stride, err_len, f, g);
    // what the block looks like afterwards
    if !nonzero {
        assert!(r.is_ok());
    }
    let mut changed_ok = true;
    if r.is_ok() && nonzero {
        kani::cover!(true, "a correction was applied");
        // expected: element n-1-log(X_k) of the block changes by EVAL[k]
        let mut k = 0;
        let mut exp_d = d0;
        let mut exp_e = e0;
        while k < ne {
            let i = GF(unsafe { XLOC[k] }).log();
            assert!(i < n);
            let pos = n - 1 - i;
            if pos < n_data {
                exp_d[pos * stride] ^= unsafe { EVAL[k] };
            } else {
                exp_e[(pos - n_data) * stride] ^= unsafe { EVAL[k] };
            }
            k += 1;
        }
        let mut j = 0;
        while j < 5 {
            if dbuf[j] != exp_d[j] { changed_ok = false; }
            j += 1;
        }
        let mut j = 0;
        while j < 6 {
            if ebuf[j] != exp_e[j] { changed_ok = false; }
            j += 1;
        }
        assert!(changed_ok);
    } else {
        // Ok without errors, or Err: nothing outside... an Err may leave partial corrections only
        // at strided positions; with all syndromes zero nothing is written at all
        if !nonzero {
            let mut j = 0;
            while j < 5 { assert!(dbuf[j] == d0[j]); j += 1; }
            let mut j = 0;
            while j < 6 { assert!(ebuf[j] == e0[j]); j += 1; }
        }
        // frame on every path: positions that are not multiples of the stride never change
        let mut j = 0;
        while j < 5 { if j % stride != 0 || j >= dl { assert!(dbuf[j] == d0[j]); } j += 1; }
        let mut j = 0;
        while j < 6 { if j % stride != 0 || j >= el { assert!(ebuf[j] == e0[j]); } j += 1; }
    }
}

#[kani::proof]
#[kani::stub(super::super::primitive_element_evaluation, pee_stub)]
#[kani::stub(super::super::chien_search, chien_stub)]
#[kani::unwind(8)]
fn decode_gen_plumbing_stride1() { check_decode_gen(1); }

#[kani::proof]
#[kani::stub(super::super::primitive_element_evaluation, pee_stub)]
#[kani::stub(super::super::chien_search, chien_stub)]
#[kani::unwind(8)]
fn decode_gen_plumbing_stride2() { check_decode_gen(2); }

#[kani::proof]
#[kani::stub(super::super::primitive_element_evaluation, pee_stub)]
#[kani::stub(super::super::chien_search, chien_stub)]
#[kani::unwind(8)]
fn decode_gen_plumbing_stride3() { check_decode_gen(3); }
