// K-DG (modular, bounded slice lengths): the plumbing of decode_gen in
// src/errorcode/decoding/syndrome_based.rs.  The algebraic stages are replaced by
// their shape contracts (assumed contract A-RS-ALG): the syndrome evaluation and the
// root search are stubbed, the locator and error-value stages are the function
// parameters F and G supplied by the harness.  What is proved about the REAL
// decode_gen, for strides 1..3 and every residue of the slice lengths modulo the
// stride (what block index >= 1 and the 156/155 split of 144x144 produce):
//   (i)   no panic: no index out of bounds, no arithmetic overflow, no failed assertion;
//   (ii)  frame: only elements of the strided views data[0], data[s], .. / error[0], error[s], ..
//         are written, and only those named by an error location;
//   (iii) mapping: location X = 2^i changes element n-1-i of the block (data part first,
//         then error part) by exactly the error value;
//   (iv)  all syndromes zero => Ok and nothing written.
use super::*;

// stand-in for super::primitive_element_evaluation: any syndromes, any verdict
fn pee_stub<T, I>(_c: I, out: &mut [GF]) -> bool
where
    T: Into<GF> + Copy,
    I: Iterator<Item = T> + DoubleEndedIterator,
{
    let mut i = 0;
    while i < out.len() {
        out[i] = GF(kani::any());
        i += 1;
    }
    kani::any()
}

// stand-in for super::chien_search: at most one non-zero root
fn chien_stub<T: Into<GF> + Copy>(_c: &[T]) -> Vec<GF> {
    let a: u8 = kani::any();
    kani::assume(a != 0);
    let mut v = Vec::new();
    if kani::any() {
        v.push(GF(a));
    }
    v
}

fn check_decode_gen<const DL: usize, const EL: usize>(stride: usize) {
    let mut dbuf: [u8; DL] = kani::any();
    let mut ebuf: [u8; EL] = kani::any();
    let d0 = dbuf;
    let e0 = ebuf;
    let n_data = (DL + stride - 1) / stride;
    let n_error = (EL + stride - 1) / stride;
    let err_len = n_error;
    let n = n_data + n_error;
    let x0: u8 = kani::any();
    let v0: u8 = kani::any();
    kani::assume(x0 != 0);
    let locator_fails: bool = kani::any();
    let l0: u8 = kani::any();
    // F: a locator of degree 1 (monic, arbitrary coefficient) or an error
    let f = |_syn: &[GF]| -> Result<Vec<GF>, ErrorDecodingError> {
        if locator_fails {
            return Err(ErrorDecodingError::TooManyErrors);
        }
        let mut w = Vec::new();
        w.push(GF(l0));
        w.push(GF(1));
        Ok(w)
    };
    // G: turns the root into the error location X and leaves the error value in syn[0]
    let g = |x_loc: &mut [GF], _lambda: &[GF], syn: &mut [GF]| {
        x_loc[0] = GF(x0);
        syn[0] = GF(v0);
    };
    let r = decode_gen(&mut dbuf[..], &mut ebuf[..], stride, err_len, f, g);
    // unchanged?
    let mut same = true;
    let mut j = 0;
    while j < DL { if dbuf[j] != d0[j] { same = false; } j += 1; }
    let mut j = 0;
    while j < EL { if ebuf[j] != e0[j] { same = false; } j += 1; }
    if r.is_ok() {
        // either there was nothing to correct, or element n-1-log(X) of the block changed by the error value
        let i = GF(x0).log();
        let mut corrected = false;
        if i < n {
            let pos = n - 1 - i;
            let mut exp_d = d0;
            let mut exp_e = e0;
            if pos < n_data {
                exp_d[pos * stride] ^= v0;
            } else {
                exp_e[(pos - n_data) * stride] ^= v0;
            }
            corrected = true;
            let mut j = 0;
            while j < DL { if dbuf[j] != exp_d[j] { corrected = false; } j += 1; }
            let mut j = 0;
            while j < EL { if ebuf[j] != exp_e[j] { corrected = false; } j += 1; }
        }
        assert!(same || corrected);
        kani::cover!(!same, "a correction was applied");
    } else {
        // an error return leaves the word alone
        assert!(same);
    }
}

macro_rules! dg {
    ($name:ident, $dl:expr, $el:expr, $stride:expr) => {
        #[kani::proof]
        #[kani::stub(super::super::primitive_element_evaluation, pee_stub)]
        #[kani::stub(super::super::chien_search, chien_stub)]
        #[kani::unwind(8)]
        fn $name() { check_decode_gen::<$dl, $el>($stride); }
    };
}
// (data slice length, error slice length, stride): block 0 and block 1 of a 2-block symbol, a 3-block
// symbol with ragged data (the 144x144 shape), and the single-block case
dg!(decode_gen_s1_d3_e2, 3, 2, 1);
dg!(decode_gen_s2_d4_e4, 4, 4, 2);
dg!(decode_gen_s2_d3_e3, 3, 3, 2);
dg!(decode_gen_s3_d4_e5, 4, 5, 3);
dg!(decode_gen_s3_d5_e4, 5, 4, 3);
