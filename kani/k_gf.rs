// K-GF: the field arithmetic of src/errorcode/galois.rs is GF(256) modulo 0x12D,
// for ALL operand values (complete: no input is left out, loops bounded by the
// operand width).
use super::*;
#[path = "gfref.rs"]
mod gfref;
use gfref::*;

#[kani::proof]
#[kani::unwind(9)]
fn gf_mul_all_pairs() {
    let a: u8 = kani::any();
    let b: u8 = kani::any();
    assert!((GF(a) * GF(b)).0 == ref_mul(a, b));
}

#[kani::proof]
#[kani::unwind(9)]
fn gf_div_all_pairs() {
    let a: u8 = kani::any();
    let b: u8 = kani::any();
    kani::assume(b != 0);
    let q = GF(a) / GF(b);
    // q is THE quotient: q * b == a (b != 0 has a unique inverse)
    assert!(ref_mul(q.0, b) == a);
    let mut x = GF(a);
    x /= GF(b);
    assert!(x.0 == q.0);
}

#[kani::proof]
fn gf_add_sub_neg_all_pairs() {
    let a: u8 = kani::any();
    let b: u8 = kani::any();
    assert!((GF(a) + GF(b)).0 == a ^ b);
    assert!((GF(a) - GF(b)).0 == a ^ b);
    assert!((-GF(a)).0 == a);
    let mut x = GF(a);
    x += GF(b);
    assert!(x.0 == a ^ b);
    let mut y = GF(a);
    y -= GF(b);
    assert!(y.0 == a ^ b);
    let n: usize = kani::any();
    assert!((GF(a) * n).0 == if n % 2 == 1 { a } else { 0 });
    assert!(u8::from(GF(a)) == a && GF::from(a).0 == a);
}

#[kani::proof]
#[kani::unwind(256)]
fn gf_primitive_power_and_log() {
    let i: u8 = kani::any();
    kani::assume(i < 255);
    let p = GF::primitive_power(i);
    assert!(p.0 == ref_pow2(i as u16));
    assert!(p.0 != 0);
    assert!(p.log() == i as usize);
}

#[kani::proof]
#[kani::unwind(9)]
fn gf_mul_assign_matches() {
    let a: u8 = kani::any();
    let b: u8 = kani::any();
    let mut x = GF(a);
    x *= GF(b);
    assert!(x.0 == ref_mul(a, b));
}
