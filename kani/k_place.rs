// K-PLACE: module placement of src/placement.rs (IndexTraversal::run, utah, corner1-4,
// idx, write_padding) against the placement procedure of ISO/IEC 16022 Annex F
// (the normative C program) with the row wrap of ISO/IEC 21471 for DMRE sizes.
// The traversal has no access to the matrix entries (only width and height), so the
// index sequence it produces is the placement for every codeword vector.
use super::*;

// ---- Annex F, transcribed: array[row*ncol+col] = 10*chr + bit (bit 1 = most significant) ----
struct AnnexF {
    nrow: isize,
    ncol: isize,
    array: Vec<u16>,
}
impl AnnexF {
    fn module(&mut self, mut row: isize, mut col: isize, chr: u16, bit: u16) {
        if row < 0 {
            row += self.nrow;
            col += 4 - ((self.nrow + 4) % 8);
        }
        if col < 0 {
            col += self.ncol;
            row += 4 - ((self.ncol + 4) % 8);
        }
        // ISO/IEC 21471 (DMRE)
        if row >= self.nrow {
            row -= self.nrow;
        }
        self.array[(row * self.ncol + col) as usize] = 10 * chr + bit;
    }
    fn utah(&mut self, row: isize, col: isize, chr: u16) {
        self.module(row - 2, col - 2, chr, 1);
        self.module(row - 2, col - 1, chr, 2);
        self.module(row - 1, col - 2, chr, 3);
        self.module(row - 1, col - 1, chr, 4);
        self.module(row - 1, col, chr, 5);
        self.module(row, col - 2, chr, 6);
        self.module(row, col - 1, chr, 7);
        self.module(row, col, chr, 8);
    }
    fn corner1(&mut self, chr: u16) {
        let (nrow, ncol) = (self.nrow, self.ncol);
        self.module(nrow - 1, 0, chr, 1);
        self.module(nrow - 1, 1, chr, 2);
        self.module(nrow - 1, 2, chr, 3);
        self.module(0, ncol - 2, chr, 4);
        self.module(0, ncol - 1, chr, 5);
        self.module(1, ncol - 1, chr, 6);
        self.module(2, ncol - 1, chr, 7);
        self.module(3, ncol - 1, chr, 8);
    }
    fn corner2(&mut self, chr: u16) {
        let (nrow, ncol) = (self.nrow, self.ncol);
        self.module(nrow - 3, 0, chr, 1);
        self.module(nrow - 2, 0, chr, 2);
        self.module(nrow - 1, 0, chr, 3);
        self.module(0, ncol - 4, chr, 4);
        self.module(0, ncol - 3, chr, 5);
        self.module(0, ncol - 2, chr, 6);
        self.module(0, ncol - 1, chr, 7);
        self.module(1, ncol - 1, chr, 8);
    }
    fn corner3(&mut self, chr: u16) {
        let (nrow, ncol) = (self.nrow, self.ncol);
        self.module(nrow - 3, 0, chr, 1);
        self.module(nrow - 2, 0, chr, 2);
        self.module(nrow - 1, 0, chr, 3);
        self.module(0, ncol - 2, chr, 4);
        self.module(0, ncol - 1, chr, 5);
        self.module(1, ncol - 1, chr, 6);
        self.module(2, ncol - 1, chr, 7);
        self.module(3, ncol - 1, chr, 8);
    }
    fn corner4(&mut self, chr: u16) {
        let (nrow, ncol) = (self.nrow, self.ncol);
        self.module(nrow - 1, 0, chr, 1);
        self.module(nrow - 1, ncol - 1, chr, 2);
        self.module(0, ncol - 3, chr, 3);
        self.module(0, ncol - 2, chr, 4);
        self.module(0, ncol - 1, chr, 5);
        self.module(1, ncol - 3, chr, 6);
        self.module(1, ncol - 2, chr, 7);
        self.module(1, ncol - 1, chr, 8);
    }
    fn ecc200(&mut self) {
        let (nrow, ncol) = (self.nrow, self.ncol);
        let mut chr: u16 = 1;
        let mut row: isize = 4;
        let mut col: isize = 0;
        loop {
            if row == nrow && col == 0 {
                self.corner1(chr);
                chr += 1;
            }
            if row == nrow - 2 && col == 0 && ncol % 4 != 0 {
                self.corner2(chr);
                chr += 1;
            }
            if row == nrow - 2 && col == 0 && ncol % 8 == 4 {
                self.corner3(chr);
                chr += 1;
            }
            if row == nrow + 4 && col == 2 && ncol % 8 == 0 {
                self.corner4(chr);
                chr += 1;
            }
            loop {
                if row < nrow && col >= 0 && self.array[(row * ncol + col) as usize] == 0 {
                    self.utah(row, col, chr);
                    chr += 1;
                }
                row -= 2;
                col += 2;
                if !(row >= 0 && col < ncol) {
                    break;
                }
            }
            row += 1;
            col += 3;
            loop {
                if row >= 0 && col < ncol && self.array[(row * ncol + col) as usize] == 0 {
                    self.utah(row, col, chr);
                    chr += 1;
                }
                row += 2;
                col -= 2;
                if !(row < nrow && col >= 0) {
                    break;
                }
            }
            row += 3;
            col += 1;
            if !(row < nrow || col < ncol) {
                break;
            }
        }
        let n = (nrow * ncol) as usize;
        if self.array[n - 1] == 0 {
            self.array[n - 1] = 1;
            self.array[n - ncol as usize - 2] = 1;
        }
    }
}

fn check_placement(size: SymbolSize) {
    let mut m = MatrixMap::<bool>::new(size);
    let (h, w) = (m.height, m.width);
    let mut r = AnnexF { nrow: h as isize, ncol: w as isize, array: vec![0u16; h * w] };
    r.ecc200();
    let refarr = &r.array;
    let mut count = 0usize;
    IndexTraversal { width: w, height: h }.run(|idx, ind| {
        let mut b = 0;
        while b < 8 {
            assert!(ind[b] < h * w);
            assert!(refarr[ind[b]] as usize == 10 * (idx + 1) + b + 1);
            b += 1;
        }
        assert!(idx == count);
        count += 1;
    });
    // every codeword placed, 8 modules each, all different cells (a cell holds one (chr, bit) value)
    assert!(count == (h * w) / 8);
    // what is left over is the fixed corner pattern, and write_padding draws exactly it
    m.write_padding();
    let mut left = 0usize;
    let mut c = 0usize;
    while c < h * w {
        if refarr[c] < 10 {
            left += 1;
        }
        assert!(m.entries[c] == (refarr[c] == 1));
        c += 1;
    }
    assert!(left == h * w - 8 * count);
    assert!(left == if size.has_padding_modules() { 4 } else { 0 });
}

macro_rules! place {
    ($name:ident, $size:ident) => {
        #[kani::proof]
        fn $name() {
            check_placement(SymbolSize::$size);
        }
    };
}
place!(place_square10, Square10);
place!(place_square12, Square12);
place!(place_square14, Square14);
place!(place_square16, Square16);
place!(place_square18, Square18);
place!(place_square20, Square20);
place!(place_square22, Square22);
place!(place_square24, Square24);
place!(place_square26, Square26);
place!(place_square32, Square32);
place!(place_square36, Square36);
place!(place_square40, Square40);
place!(place_square44, Square44);
place!(place_square48, Square48);
place!(place_square52, Square52);
place!(place_square64, Square64);
place!(place_square72, Square72);
place!(place_square80, Square80);
place!(place_square88, Square88);
place!(place_square96, Square96);
place!(place_square104, Square104);
place!(place_square120, Square120);
place!(place_square132, Square132);
place!(place_square144, Square144);
place!(place_rect8x18, Rect8x18);
place!(place_rect8x32, Rect8x32);
place!(place_rect12x26, Rect12x26);
place!(place_rect12x36, Rect12x36);
place!(place_rect16x36, Rect16x36);
place!(place_rect16x48, Rect16x48);
place!(place_rect8x48, Rect8x48);
place!(place_rect8x64, Rect8x64);
place!(place_rect8x80, Rect8x80);
place!(place_rect8x96, Rect8x96);
place!(place_rect8x120, Rect8x120);
place!(place_rect8x144, Rect8x144);
place!(place_rect12x64, Rect12x64);
place!(place_rect12x88, Rect12x88);
place!(place_rect16x64, Rect16x64);
place!(place_rect20x36, Rect20x36);
place!(place_rect20x44, Rect20x44);
place!(place_rect20x64, Rect20x64);
place!(place_rect22x48, Rect22x48);
place!(place_rect24x48, Rect24x48);
place!(place_rect24x64, Rect24x64);
place!(place_rect26x40, Rect26x40);
place!(place_rect26x48, Rect26x48);
place!(place_rect26x64, Rect26x64);
