// K-EDI-MOD: the real `edifact::encode` + `handle_end` + `write4` run against the harness-local EncodingContext
// (kani/mockctx.rs) for EVERY run of at most N EDIFACT characters (32..=94), every pair of symbol capacities and
// every planned switch position.  Oracle (independent of the code): the codewords written, followed by the ASCII
// encodation of what is handed back to ASCII and by padding up to the capacity of the first symbol that fits, are
// read by a transcription of the ISO/IEC 16022 EDIFACT decoding rules (5.2.8: four 6-bit values per three
// codewords, value 011111 unlatches, one or two codewords left at the end of the symbol are ASCII) as the input.
use super::*;
#[path = "mockctx.rs"]
mod mockctx;
use mockctx::{ref_ascii_encode, Mock, NI, NO};

struct Dec {
    out: [u8; 2 * NI],
    n: usize,
    ok: bool,
}

fn edi_char(v: u8) -> u8 {
    if v >= 32 {
        v
    } else {
        v + 64
    }
}

fn ref_decode_edifact(sym: &[u8; 2 * NO], n: usize, data_end: usize) -> Dec {
    let mut d = Dec { out: [0; 2 * NI], n: 0, ok: true };
    let mut i = 0;
    let mut in_ascii = false;
    while i < n && !in_ascii {
        if n - i <= 2 {
            in_ascii = true;
        } else if i >= data_end {
            // pad codewords while still in EDIFACT mode: not conformant
            d.ok = false;
            return d;
        } else {
            let a = sym[i];
            let b = sym[i + 1];
            let c = sym[i + 2];
            let vals = [a >> 2, ((a & 3) << 4) | (b >> 4), ((b & 15) << 2) | (c >> 6), c & 63];
            let used = [1usize, 2, 3, 3];
            let mut k = 0;
            let mut adv = 3;
            while k < 4 {
                if vals[k] == 31 {
                    adv = used[k];
                    in_ascii = true;
                    k = 4;
                } else {
                    d.out[d.n] = edi_char(vals[k]);
                    d.n += 1;
                    k += 1;
                }
            }
            i += adv;
        }
    }
    let mut up = false;
    while i < n && i < data_end {
        let c = sym[i];
        if c >= 1 && c <= 128 {
            d.out[d.n] = if up { c - 1 + 128 } else { c - 1 };
            d.n += 1;
            up = false;
        } else if c >= 130 && c <= 229 && !up {
            d.out[d.n] = 48 + (c - 130) / 10;
            d.out[d.n + 1] = 48 + (c - 130) % 10;
            d.n += 2;
        } else if c == 235 && !up {
            up = true;
        } else {
            d.ok = false;
            return d;
        }
        i += 1;
    }
    if up {
        d.ok = false;
    }
    d
}

fn check_run(len: usize) {
    let mut m = Mock::any(len);
    let mut j = 0;
    while j < m.len {
        kani::assume(is_encodable(m.input[j]));
        j += 1;
    }
    let r = encode(&mut m);
    if r.is_err() {
        assert!(r == Err(DataEncodingError::TooMuchOrIllegalData));
        return;
    }
    assert!(m.pos <= m.len);
    // reachability of the three exits (vacuity guard)
    kani::cover!(m.len < 2 || (m.switched && !m.ascii_until_end));
    kani::cover!(!m.switched && m.pos == m.len && m.n_out > 0);
    kani::cover!(m.ascii_until_end);
    let mut sym = [0u8; 2 * NO];
    let mut k = 0;
    while k < m.n_out {
        sym[k] = m.out[k];
        k += 1;
    }
    // (an end-of-data rule may override a planned switch: the encoder then hands the rest to ASCII; in the real
    //  context that is sound when the planned mode is ASCII, which is part of A-OPT)
    if m.switched && !m.ascii_until_end {
        // a planned switch: the run ends at the planned position with the unlatch value written
        assert!(m.len - m.pos == m.switch_at);
        // read with three more codewords of room, so that only an explicit unlatch ends the run
        let d = ref_decode_edifact(&sym, m.n_out + 3, m.n_out);
        assert!(!d.ok || d.n == m.pos);
        // the run must have unlatched inside its own codewords: reading it in a symbol that goes on must not fail
        sym[m.n_out] = 66;
        sym[m.n_out + 1] = 66;
        sym[m.n_out + 2] = 66;
        let d2 = ref_decode_edifact(&sym, m.n_out + 6, m.n_out + 3);
        assert!(d2.ok && d2.n == m.pos + 3);
        let mut j = 0;
        while j < m.pos {
            assert!(d2.out[j] == m.input[j]);
            j += 1;
        }
        assert!(d2.out[m.pos] == 65 && d2.out[m.pos + 1] == 65 && d2.out[m.pos + 2] == 65);
    } else {
        assert!(m.pos == m.len || m.ascii_until_end);
        let data_end = ref_ascii_encode(&m.input[m.pos..m.len], &mut sym, m.n_out);
        if let Some(cap) = m.first_fit(data_end) {
            let d = ref_decode_edifact(&sym, cap, data_end);
            assert!(d.ok && d.n == m.len);
            let mut j = 0;
            while j < m.len {
                assert!(d.out[j] == m.input[j]);
                j += 1;
            }
        }
    }
}

#[kani::proof]
#[kani::unwind(8)]
fn edifact_encode_run_of_1() {
    check_run(1);
}

#[kani::proof]
#[kani::unwind(10)]
fn edifact_encode_run_of_2() {
    check_run(2);
}

#[kani::proof]
#[kani::unwind(10)]
fn edifact_encode_run_of_3() {
    check_run(3);
}

#[kani::proof]
#[kani::unwind(12)]
fn edifact_encode_run_of_4() {
    check_run(4);
}

#[kani::proof]
#[kani::unwind(12)]
fn edifact_encode_run_of_5() {
    check_run(5);
}
