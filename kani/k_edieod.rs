// K-EDI-EOD (bounded): the whole EDIFACT encoder incl. its end-of-data rules (encode, handle_end, write4;
// ISO/IEC 16022 5.2.8), on ALL inputs of at most N EDIFACT characters (32..=94) and every remaining symbol
// capacity, with a one-symbol context without planned switches: what it writes (+ the ASCII tail and padding
// the driver would add) is read back as the input by a reference EDIFACT/ASCII decoder transcribed from the standard.
use super::*;

struct Ctx<'a> {
    input: &'a [u8],
    pos: usize,
    cw: alloc::vec::Vec<u8>,
    cap: usize,
    ascii_tail: bool,
}
impl<'a> EncodingContext for Ctx<'a> {
    fn maybe_switch_mode(&mut self) -> Result<bool, DataEncodingError> { Ok(false) }
    fn symbol_size_left(&mut self, extra: usize) -> Option<usize> {
        let used = self.cw.len() + extra;
        if used <= self.cap { Some(self.cap - used) } else { None }
    }
    fn eat(&mut self) -> Option<u8> {
        if self.pos < self.input.len() { self.pos += 1; Some(self.input[self.pos - 1]) } else { None }
    }
    fn backup(&mut self, steps: usize) { self.pos -= steps; }
    fn rest(&self) -> &[u8] { &self.input[self.pos..] }
    fn push(&mut self, ch: u8) { self.cw.push(ch); }
    fn replace(&mut self, index: usize, ch: u8) { self.cw[index] = ch; }
    fn insert(&mut self, index: usize, ch: u8) { self.cw.insert(index, ch); }
    fn codewords(&self) -> &[u8] { &self.cw }
    fn set_ascii_until_end(&mut self) { self.ascii_tail = true; }
}

// ---- reference decoder (ISO/IEC 16022 5.2.3, 5.2.8), for a symbol of exactly s.len() codewords after the latch ----
fn ref_edifact_then_ascii(s: &[u8], out: &mut [u8; 10]) -> Option<usize> {
    let mut n = 0usize;
    let mut i = 0usize;
    // EDIFACT part: triples of codewords = four 6-bit values; value 31 = unlatch; <= 2 codewords left = ASCII
    loop {
        if s.len() - i <= 2 { break; }
        let (a, b, c) = (s[i], s[i + 1], s[i + 2]);
        let vals = [a / 4, (a % 4) * 16 + b / 16, (b % 16) * 4 + c / 64, c % 64];
        let used = [1usize, 2, 3, 3];
        let mut k = 0;
        let mut unlatched = false;
        while k < 4 {
            if vals[k] == 31 { i += used[k]; unlatched = true; break; }
            if n >= 10 { return None; }
            out[n] = if vals[k] >= 32 { vals[k] } else { vals[k] + 64 };
            n += 1;
            k += 1;
        }
        if unlatched { break; }
        i += 3;
    }
    // ASCII part
    let mut up = false;
    while i < s.len() {
        let ch = s[i];
        if ch == 129 {
            let mut p = i + 1;
            while p < s.len() {
                let pr = ((149 * (p + 2)) % 253) + 1;
                let t = s[p] as i32 - pr as i32;
                let d = if t >= 1 { t } else { t + 254 };
                if d != 129 { return None; }
                p += 1;
            }
            break;
        }
        if up {
            if !(ch >= 1 && ch <= 128) { return None; }
            if n >= 10 { return None; }
            out[n] = ch + 127; n += 1; up = false;
        } else if ch >= 1 && ch <= 128 {
            if n >= 10 { return None; }
            out[n] = ch - 1; n += 1;
        } else if ch >= 130 && ch <= 229 {
            if n + 1 >= 10 { return None; }
            out[n] = 48 + (ch - 130) / 10; out[n + 1] = 48 + (ch - 130) % 10; n += 2;
        } else if ch == 235 {
            up = true;
        } else {
            return None;
        }
        i += 1;
    }
    if up { return None; }
    Some(n)
}

fn check_edifact_eod<const N: usize>() {
    let data: [u8; N] = kani::any();
    let len: usize = kani::any();
    kani::assume(len >= 1 && len <= N);
    let mut j = 0;
    while j < N {
        kani::assume(data[j] >= 32 && data[j] <= 94);
        j += 1;
    }
    let cap: usize = kani::any();
    kani::assume(cap <= N + 4);
    let mut ctx = Ctx { input: &data[..len], pos: 0, cw: alloc::vec::Vec::new(), cap, ascii_tail: false };
    let r = encode(&mut ctx);
    if r.is_err() {
        return;
    }
    let mut in_ascii = ctx.ascii_tail;
    if ctx.pos < len {
        assert!(ctx.ascii_tail);
        let r2 = super::super::ascii::encode(&mut ctx);
        assert!(r2.is_ok());
        in_ascii = true;
    }
    assert!(ctx.pos == len);
    if ctx.cw.len() > cap {
        return;
    }
    if ctx.cw.len() < cap {
        // the encoder has already written the EDIFACT unlatch where one is needed; the driver's add_padding
        // writes 254 only if the mode is still non-ASCII: a conforming EDIFACT run never needs it
        assert!(in_ascii);
        if ctx.cw.len() < cap { ctx.cw.push(129); }
        while ctx.cw.len() < cap {
            let pos = ctx.cw.len() + 2;
            let t = 129 + ((149 * pos) % 253) + 1;
            ctx.cw.push(if t <= 254 { t as u8 } else { (t - 254) as u8 });
        }
    }
    let mut out = [0u8; 10];
    let n = ref_edifact_then_ascii(&ctx.cw, &mut out);
    assert!(n == Some(len));
    let mut i = 0;
    while i < len {
        assert!(out[i] == data[i]);
        i += 1;
    }
}

#[kani::proof]
#[kani::unwind(12)]
fn edifact_encode_eod_up_to_4() { check_edifact_eod::<4>(); }

#[kani::proof]
#[kani::unwind(14)]
fn edifact_encode_eod_up_to_6() { check_edifact_eod::<6>(); }
