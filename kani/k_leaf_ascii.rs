// K-LEAF-ASCII: two_digits_coming (a slice pattern, outside the Verus subset) has the
// closed form that the Verus units assume for it, for ALL slices up to length 3
// (the function only looks at the first two elements).
use super::*;

#[kani::proof]
fn two_digits_coming_closed_form() {
    let n: usize = kani::any();
    kani::assume(n <= 3);
    let v: [u8; 3] = kani::any();
    let s = &v[..n];
    let want = n >= 2 && v[0] >= 48 && v[0] <= 57 && v[1] >= 48 && v[1] <= 57;
    assert!(two_digits_coming(s) == want);
}
