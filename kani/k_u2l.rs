// K-U2L: data::utf8_to_latin1 per character, for ALL Unicode scalar values: a
// character converts exactly when it is a printable ISO-8859-1 character
// (U+0020..U+007E, U+00A0..U+00FF), and then to the byte with its code point.
// The function is a per-character map with early exit, so the statement for
// strings of any length is the character-wise lifting of this one.
use super::*;

#[kani::proof]
#[kani::unwind(6)]
fn utf8_to_latin1_every_char() {
    let c: char = kani::any();
    let mut buf = [0u8; 4];
    let s: &str = c.encode_utf8(&mut buf);
    let cp = c as u32;
    let printable = (cp >= 0x20 && cp <= 0x7E) || (cp >= 0xA0 && cp <= 0xFF);
    match utf8_to_latin1(s) {
        Some(v) => {
            assert!(printable);
            assert!(v.len() == 1);
            assert!(v[0] as u32 == cp);
        }
        None => assert!(!printable),
    }
}

// empty string, and early exit on a bad second character
#[kani::proof]
#[kani::unwind(6)]
fn utf8_to_latin1_two_chars() {
    assert!(utf8_to_latin1("") == Some(alloc::vec::Vec::new()));
    let a: u8 = kani::any();
    let b: u8 = kani::any();
    kani::assume(a < 128 && b < 128);
    let bytes = [a, b];
    if let Ok(s) = core::str::from_utf8(&bytes) {
        let pa = a >= 0x20 && a <= 0x7E;
        let pb = b >= 0x20 && b <= 0x7E;
        match utf8_to_latin1(s) {
            Some(v) => assert!(pa && pb && v.len() == 2 && v[0] == a && v[1] == b),
            None => assert!(!(pa && pb)),
        }
    }
}
