// K-CHIEN1: chien_search on polynomials of degree <= 1 (the shortcut branch), for
// ALL coefficient pairs: never panics (no division by zero), returns exactly the
// roots of c[0]*x + c[1].
use super::*;
#[path = "gfref.rs"]
mod gfref;
use gfref::*;

#[kani::proof]
#[kani::unwind(9)]
fn chien_degree_one_all_coefficients() {
    let c0: u8 = kani::any();
    let c1: u8 = kani::any();
    let roots = chien_search(&[GF(c0), GF(c1)]);
    assert!(roots.len() <= 2);
    // every reported value is a root
    let mut k = 0;
    while k < roots.len() {
        let x = roots[k].0;
        assert!(ref_mul(c0, x) ^ c1 == 0);
        k += 1;
    }
    // a non-constant polynomial c0*x + c1 (c0 != 0) has exactly one root and it is reported
    if c0 != 0 {
        assert!(roots.len() == 1);
    }
    if c0 == 0 && c1 != 0 {
        assert!(roots.len() == 0);
    }
}

#[kani::proof]
fn chien_empty_and_constant() {
    let e: [GF; 0] = [];
    assert!(chien_search(&e).len() == 0);
}
