// K-LEAF-B256: the 255-state randomising algorithm of src/encodation/base256.rs
// (ISO/IEC 16022 Annex B.2) for ALL byte values and ALL positions of a symbol.
use super::*;

#[kani::proof]
fn randomize_255_all_bytes_all_positions() {
    let ch: u8 = kani::any();
    let pos: usize = kani::any();
    kani::assume(pos >= 1 && pos <= 3116);
    let r = randomize_255_state(ch, pos);
    // Annex B.2: pseudo random number = ((149 * position) mod 255) + 1; value = ch + prn, minus 256 if > 255
    let prn = ((149 * pos) % 255) + 1;
    let t = ch as usize + prn;
    let want = if t <= 255 { t } else { t - 256 };
    assert!(r as usize == want);
    // un-randomising gives ch back
    let d = r as i32 - prn as i32;
    let back = if d >= 0 { d } else { d + 256 };
    assert!(back == ch as i32);
}
