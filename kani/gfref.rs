// Independent GF(256) arithmetic for harnesses: carry-less shift-and-xor modulo
// x^8 + x^5 + x^3 + x^2 + 1 (0x12D), ISO/IEC 16022 Annex E.  No tables, nothing
// shared with src/errorcode/galois.rs.
pub fn ref_mul(a: u8, b: u8) -> u8 {
    let mut acc: u16 = 0;
    let mut aa: u16 = a as u16;
    let mut i = 0;
    while i < 8 {
        if (b >> i) & 1 == 1 {
            acc ^= aa;
        }
        aa <<= 1;
        if aa & 0x100 != 0 {
            aa ^= 0x12D;
        }
        i += 1;
    }
    acc as u8
}

// 2^i by repeated doubling
pub fn ref_pow2(i: u16) -> u8 {
    let mut p: u16 = 1;
    let mut k = 0;
    while k < i {
        p <<= 1;
        if p & 0x100 != 0 {
            p ^= 0x12D;
        }
        k += 1;
    }
    p as u8
}
