#!/usr/bin/env python3
"""usage: tools_saveseed.py <PROP> <i> <confirm-output-file> : copy a confirmed seeded change into /verif/seeded/<PROP>-<i>/"""
import json, os, shutil, sys, re
prop, i, conf = sys.argv[1], sys.argv[2], sys.argv[3]
src = '/tmp/wt-%s/seeded/%s' % (prop, i)
line = [l for l in open(conf) if l.startswith('RESULT %s/%s ' % (prop, i))]
assert line, 'no confirmation'
l = line[0]
ok = ('suite-with-change: test result: ok. 167 passed' in l and 'demo-with-change: test result: FAILED' in l and 'demo-without: test result: ok' in l)
assert ok, 'not confirmed: ' + l
notes = open(os.path.join(src, 'notes.md')).read()
target = sys.argv[4] if len(sys.argv) > 4 else prop
dst = '/verif/seeded/%s-%s' % (target, i if target == prop else prop + '_' + i)
os.makedirs(dst, exist_ok=True)
for f in ('patch.diff', 'demo.rs', 'notes.md'):
    shutil.copy(os.path.join(src, f), os.path.join(dst, f))
meta = {
    'breaks_property': target,
    'needs_to_manifest': re.sub(r'\s+', ' ', notes)[:600],
    'confirmed_by': 'tools_confirm.sh in a scratch worktree of /repo (HEAD with the fix: commits): patch applies; cargo test --offline: 167 lib + 9 doc tests pass with the change; tests/demo.rs fails with the change and passes without it',
    'confirmation_output': l.strip(),
    'source': 'independent sub-agent given only the property text and a scratch worktree',
}
json.dump(meta, open(os.path.join(dst, 'meta.json'), 'w'), indent=1)
print('saved', dst)
