#!/usr/bin/env python3
"""Run the check of the property each seeded change breaks against a scratch copy of /repo with the change applied
(equivalent to: git -C /repo apply <patch>; ./check <prop>; git -C /repo checkout -- . — but /repo itself is not
touched, so several changes can be tried at once), and record the outcome in seeded/<id>/meta.json.
usage: tools_seedmatrix.py [--tier quick|thorough] [--jobs N] [id ...]"""
import concurrent.futures as cf, json, os, shutil, subprocess, sys, tempfile, time
V = '/verif'
tier = 'quick'; jobs = 2
args = sys.argv[1:]
while args[:1] and args[0].startswith('--'):
    if args[0] == '--tier': tier = args[1]
    if args[0] == '--jobs': jobs = int(args[1])
    args = args[2:]
ids = args or sorted(os.listdir(os.path.join(V, 'seeded')))

def one(sid):
    d = os.path.join(V, 'seeded', sid)
    meta = json.load(open(os.path.join(d, 'meta.json')))
    prop = meta['breaks_property']
    scratch = tempfile.mkdtemp(prefix='seedrepo-%s-' % sid)
    try:
        subprocess.run('git -C /repo archive HEAD | tar -x -C %s' % scratch, shell=True, check=True)
        shutil.copy('/repo/Cargo.lock', os.path.join(scratch, 'Cargo.lock'))
        if subprocess.run(['patch', '-p1', '-s', '-d', scratch, '-i', os.path.join(d, 'patch.diff')]).returncode != 0:
            return sid, prop, None
        env = dict(os.environ, VERIF_REPO=scratch, VERIF_EVIDENCE_DIR=os.path.join(scratch, 'evidence'), VERIF_KANI_JOBS='6')
        t0 = time.time()
        try:
            p = subprocess.run(['./check', prop, '--tier', tier], cwd=V, capture_output=True, text=True, timeout=5400, env=env)
            out, rc = p.stdout, p.returncode
        except subprocess.TimeoutExpired:
            out, rc = 'TIMEOUT', 99
        obs = [l.strip() for l in out.split('\n') if l.strip().startswith('failed obligation:')]
        viol = [l.strip() for l in out.split('\n') if l.startswith('VIOLATION')]
        und = [l.strip()[:300] for l in out.split('\n') if l.startswith('UNDECIDED')]
        wit = None
        for l in viol:
            rp = l.split('replay=')[1].split()[0]
            try:
                w = json.load(open(rp)).get('witness')
                if w: wit = w; break
            except Exception:
                pass
        res = {'tier': tier, 'exit': rc, 'wall_s': round(time.time() - t0), 'verdict': {0: 'MISSED (check passed)', 1: 'DETECTED', 2: 'UNDECIDED'}.get(rc, 'other'),
               'failed_obligations': obs[:6], 'violation_lines': viol[:4], 'undecided': und[:3], 'witness': wit}
        meta.setdefault('check_results', {})[tier] = res
        meta['what_was_run'] = 'scratch copy of /repo HEAD + seeded/%s/patch.diff; VERIF_REPO=<copy> ./check %s --tier %s' % (sid, prop, tier)
        json.dump(meta, open(os.path.join(d, 'meta.json'), 'w'), indent=1)
        return sid, prop, res
    finally:
        shutil.rmtree(scratch, ignore_errors=True)
        import hashlib
        tag = hashlib.sha1(os.path.abspath(scratch).encode()).hexdigest()[:8]
        shutil.rmtree(os.path.join(V, 'work', 'replay-src-' + tag), ignore_errors=True)
        shutil.rmtree(os.path.join(V, 'work', 'replay-target-' + tag), ignore_errors=True)

with cf.ThreadPoolExecutor(max_workers=jobs) as pool:
    for sid, prop, res in pool.map(one, ids):
        if res is None:
            print(sid, 'PATCH DOES NOT APPLY', flush=True); continue
        obs, und = res['failed_obligations'], res['undecided']
        print('%-10s %-4s %-9s %4ds  %s %s' % (sid, prop, res['verdict'].split()[0], res['wall_s'], (obs[0][19:130] if obs else (und[0][:110] if und else '')), 'WITNESS' if res.get('witness') else ''), flush=True)
