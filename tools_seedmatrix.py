#!/usr/bin/env python3
"""Run the quick (or given tier) check of the property each seeded change breaks, with the change applied to /repo,
and record the outcome in seeded/<id>/meta.json.  usage: tools_seedmatrix.py [--tier quick|thorough] [id ...]"""
import json, os, subprocess, sys, time
V = '/verif'
tier = 'quick'
args = sys.argv[1:]
if args[:1] == ['--tier']:
    tier = args[1]; args = args[2:]
ids = args or sorted(os.listdir(os.path.join(V, 'seeded')))
assert subprocess.run(['git', '-C', '/repo', 'status', '--porcelain'], capture_output=True, text=True).stdout.strip() == '', '/repo not clean'
for sid in ids:
    d = os.path.join(V, 'seeded', sid)
    meta = json.load(open(os.path.join(d, 'meta.json')))
    prop = meta['breaks_property']
    patch = os.path.join(d, 'patch.diff')
    if subprocess.run(['git', '-C', '/repo', 'apply', '--check', patch]).returncode != 0:
        print(sid, 'PATCH DOES NOT APPLY'); continue
    subprocess.run(['git', '-C', '/repo', 'apply', patch], check=True)
    t0 = time.time()
    try:
        p = subprocess.run(['./check', prop, '--tier', tier], cwd=V, capture_output=True, text=True, timeout=3600)
        out, rc = p.stdout, p.returncode
    except subprocess.TimeoutExpired:
        out, rc = 'TIMEOUT', 99
    finally:
        subprocess.run(['git', '-C', '/repo', 'checkout', '--', '.'], check=True)
    obs = [l.strip() for l in out.split('\n') if l.strip().startswith('failed obligation:')]
    viol = [l.strip() for l in out.split('\n') if l.startswith('VIOLATION')]
    und = [l.strip()[:300] for l in out.split('\n') if l.startswith('UNDECIDED')]
    res = {'tier': tier, 'exit': rc, 'wall_s': round(time.time() - t0), 'verdict': {0: 'MISSED (check passed)', 1: 'DETECTED', 2: 'UNDECIDED'}.get(rc, 'other'),
           'failed_obligations': obs[:6], 'violation_lines': viol[:4], 'undecided': und[:3]}
    meta.setdefault('check_results', {})[tier] = res
    meta['what_was_run'] = 'git -C /repo apply seeded/%s/patch.diff; ./check %s --tier %s; git -C /repo checkout -- .' % (sid, prop, tier)
    json.dump(meta, open(os.path.join(d, 'meta.json'), 'w'), indent=1)
    print('%-10s %-4s %-9s %4ds  %s' % (sid, prop, res['verdict'].split()[0], res['wall_s'], (obs[0][19:140] if obs else (und[0][:120] if und else ''))))
