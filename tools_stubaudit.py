#!/usr/bin/env python3
"""Audit of assumed contracts: every `stub` of a unit is the contract under which a callee is ASSUMED in that unit.
For each stub whose function is proved (`fn`) in another unit, compare the contract texts clause by clause
(whitespace-normalised; shared `spec @file` references compare by file name).  Prints the stub clauses that do not
occur literally in the proving unit's contract - these have to be weaker by inspection (listed in DESIGN 0.6) -
and the stubs that no unit proves (the assumed base)."""
import glob, os, re, sys
V = os.path.dirname(os.path.abspath(__file__))

def items(path):
    lines = open(path).read().split('\n')
    out = []
    i = 0
    while i < len(lines):
        m = re.match(r'\s*(fn|stub)\s+(\S+\.rs\s+)?(\S+)\s*$', lines[i])
        if m:
            j = i + 1
            body = []
            while j < len(lines) and not re.match(r'\s*end\s*$', lines[j]):
                body.append(lines[j]); j += 1
            text = '\n'.join(body)
            specs = re.findall(r'spec <<<\n(.*?)>>>', text, re.S)
            shared = re.findall(r'spec @(\S+)', text)
            for sh in shared:
                specs.append(open(os.path.join(V, 'contracts', sh)).read())
            out.append((m.group(1), (m.group(2) or '').strip(), m.group(3), '\n'.join(specs)))
            i = j
        i += 1
    return out

def clauses(spec):
    spec = re.sub(r'//[^\n]*', '', spec)
    spec = re.sub(r'\b(requires|ensures)\b', ',', spec)
    parts, depth, cur = [], 0, ''
    for ch in spec:
        if ch in '([{': depth += 1
        if ch in ')]}': depth -= 1
        if ch == ',' and depth == 0:
            parts.append(cur); cur = ''
        else:
            cur += ch
    parts.append(cur)
    return [re.sub(r'\s+', ' ', p).strip() for p in parts if p.strip()]

allitems = {}
for f in sorted(glob.glob(os.path.join(V, 'units', '*.unit'))):
    for kind, file, name, spec in items(f):
        allitems.setdefault((file, name), []).append((os.path.basename(f), kind, spec))
unproved, differ = [], []
for (file, name), lst in sorted(allitems.items()):
    proofs = [x for x in lst if x[1] == 'fn']
    for u, kind, spec in lst:
        if kind != 'stub':
            continue
        if not proofs:
            unproved.append((u, file, name)); continue
        pc = set()
        for _, _, ps in proofs:
            pc |= set(clauses(ps))
        miss = [c for c in clauses(spec) if c not in pc]
        if miss:
            differ.append((u, file, name, [p[0] for p in proofs], miss))
print('stubs no unit proves (assumed base):')
for u, f, n in unproved:
    print('  %-14s %s %s' % (u, f, n))
print('stub clauses not literally in the proving contract (reviewed by hand):')
for u, f, n, pu, miss in differ:
    print('  %-14s %s %s  (proved in %s)' % (u, f, n, ','.join(pu)))
    for c in miss:
        print('      - ' + c[:200])
