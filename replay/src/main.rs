//! Replays recorded calls against the real crate in /repo (public API only).
//! One JSON-ish command per line on stdin, one result line on stdout.
//! Line format (kept trivial to avoid dependencies):
//!   decode_data <hex>            decode_str <hex>
//!   decode_error <SizeName> <hex>
//!   encode_error <SizeName> <hex>
//!   encode <symbols> <modes> <macros 0|1> <fnc1 0|1> <eci|-> <hex>
//!        symbols: default | all | Name,Name,...      modes: all | Ascii,C40,...
//!   encode_str <symbols> <utf8 hex>
//!   rt <symbols> <modes> <macros> <fnc1> <hex>     encode, then decode_data of the data codewords and full bitmap decode
//!   place <SizeName> <hex codewords>             new_with_codewords(..).codewords()
//!   latin1 <hex>   (latin1_to_utf8)        u2l <utf8 hex>  (utf8_to_latin1)
use datamatrix::data::{decode_data, decode_str, encode_data, latin1_to_utf8, utf8_to_latin1};
use datamatrix::errorcode::{decode_error, encode_error};
use datamatrix::placement::MatrixMap;
use datamatrix::{DataMatrix, DataMatrixBuilder, EncodationType, SymbolList, SymbolSize};
use std::io::{self, BufRead, Write};
use std::panic;

fn unhex(s: &str) -> Vec<u8> {
    let s = s.trim();
    if s == "-" {
        return vec![];
    }
    (0..s.len() / 2).map(|i| u8::from_str_radix(&s[2 * i..2 * i + 2], 16).unwrap()).collect()
}
fn hex(b: &[u8]) -> String {
    b.iter().map(|x| format!("{:02x}", x)).collect()
}
fn size_by_name(n: &str) -> SymbolSize {
    for s in SymbolList::all().iter() {
        if format!("{:?}", s) == n {
            return s;
        }
    }
    panic!("unknown size {}", n);
}
fn symbols(spec: &str) -> SymbolList {
    match spec {
        "default" => SymbolList::default(),
        "all" => SymbolList::all(),
        "empty" => SymbolList::with_whitelist(Vec::<SymbolSize>::new()),
        s => SymbolList::with_whitelist(s.split(',').map(size_by_name).collect::<Vec<_>>()),
    }
}
fn modes(spec: &str) -> flagset_like::Modes {
    flagset_like::parse(spec)
}
mod flagset_like {
    use datamatrix::EncodationType;
    pub type Modes = Vec<EncodationType>;
    pub fn parse(spec: &str) -> Modes {
        if spec == "all" {
            return vec![EncodationType::Ascii, EncodationType::C40, EncodationType::Text, EncodationType::X12, EncodationType::Edifact, EncodationType::Base256];
        }
        spec.split(',')
            .map(|m| match m {
                "Ascii" => EncodationType::Ascii,
                "C40" => EncodationType::C40,
                "Text" => EncodationType::Text,
                "X12" => EncodationType::X12,
                "Edifact" => EncodationType::Edifact,
                "Base256" => EncodationType::Base256,
                _ => panic!("mode"),
            })
            .collect()
    }
}

fn builder(sym: &str, md: &str, macros: bool, fnc1: bool) -> DataMatrixBuilder {
    let ms = modes(md);
    let mut fs = ms[0] | ms[0];
    for m in &ms {
        fs = fs | *m;
    }
    DataMatrixBuilder::new().with_symbol_list(symbols(sym)).with_encodation_types(fs).with_macros(macros).with_fnc1_start(fnc1)
}

fn run(line: &str) -> String {
    let p: Vec<&str> = line.split_whitespace().collect();
    if p.is_empty() {
        return "skip".into();
    }
    match p[0] {
        "decode_data" => match decode_data(&unhex(p[1])) {
            Ok(v) => format!("ok {}", hex(&v)),
            Err(e) => format!("err {:?}", e),
        },
        "decode_str" => match decode_str(&unhex(p[1])) {
            Ok(s) => format!("ok {}", hex(s.as_bytes())),
            Err(e) => format!("err {:?}", e),
        },
        "decode_error" => {
            let mut cw = unhex(p[2]);
            match decode_error(&mut cw, size_by_name(p[1])) {
                Ok(()) => format!("ok {}", hex(&cw)),
                Err(e) => format!("err {:?} {}", e, hex(&cw)),
            }
        }
        "encode_error" => format!("ok {}", hex(&encode_error(&unhex(p[2]), size_by_name(p[1])))),
        "encode" => {
            let eci = if p[5] == "-" { None } else { Some(p[5].parse::<u32>().unwrap()) };
            match builder(p[1], p[2], p[3] == "1", p[4] == "1").encode_eci(&unhex(p[6]), eci) {
                Ok(dm) => format!("ok {:?} {} {}", dm.size, hex(dm.data_codewords()), hex(dm.codewords())),
                Err(e) => format!("err {:?}", e),
            }
        }
        "encode_str" => match DataMatrix::encode_str(std::str::from_utf8(&unhex(p[2])).unwrap(), symbols(p[1])) {
            Ok(dm) => format!("ok {:?} {}", dm.size, hex(dm.data_codewords())),
            Err(e) => format!("err {:?}", e),
        },
        "rt" => {
            let data = unhex(p[5]);
            match builder(p[1], p[2], p[3] == "1", p[4] == "1").encode(&data) {
                Ok(dm) => {
                    let d1 = decode_data(dm.data_codewords());
                    let bm = dm.bitmap();
                    let px: Vec<bool> = {
                        let w = bm.width();
                        let h = bm.height();
                        let mut v = vec![false; w * h];
                        for (x, y) in bm.pixels() {
                            v[y * w + x] = true;
                        }
                        v
                    };
                    let d2 = DataMatrix::decode(&px, bm.width());
                    format!(
                        "ok {:?} {} data={} pixels={}",
                        dm.size,
                        hex(dm.data_codewords()),
                        match d1 { Ok(v) => format!("ok:{}", hex(&v)), Err(e) => format!("err:{:?}", e) },
                        match d2 { Ok(v) => format!("ok:{}", hex(&v)), Err(e) => format!("err:{:?}", e) }
                    )
                }
                Err(e) => format!("err {:?}", e),
            }
        }
        "place" => {
            let cw = unhex(p[2]);
            let m = MatrixMap::new_with_codewords(&cw, size_by_name(p[1]));
            format!("ok {}", hex(&m.codewords()))
        }
        "latin1" => match latin1_to_utf8(&unhex(p[1])) {
            Some(s) => format!("ok {}", hex(s.as_bytes())),
            None => "none".into(),
        },
        "u2l" => match utf8_to_latin1(std::str::from_utf8(&unhex(p[1])).unwrap()) {
            Some(v) => format!("ok {}", hex(&v)),
            None => "none".into(),
        },
        "data" => {
            // encode_data <symbols> <modes> <macros> <eci|-> <hex>
            let eci = if p[4] == "-" { None } else { Some(p[4].parse::<u32>().unwrap()) };
            let ms = modes(p[2]);
            let mut fs = ms[0] | ms[0];
            for m in &ms {
                fs = fs | *m;
            }
            match encode_data(&unhex(p[5]), &symbols(p[1]), eci, fs, p[3] == "1") {
                Ok((cw, size)) => format!("ok {:?} {}", size, hex(&cw)),
                Err(e) => format!("err {:?}", e),
            }
        }
        "plan" => {
            // plan <symbols> <modes> <hex>: data::encodation_plan + the data codewords of encode_data (macros off, no ECI)
            let ms = modes(p[2]);
            let mut fs = ms[0] | ms[0];
            for m in &ms {
                fs = fs | *m;
            }
            let data = unhex(p[3]);
            let plan = datamatrix::data::encodation_plan(&data, &symbols(p[1]), fs);
            let enc = match encode_data(&data, &symbols(p[1]), None, fs, false) {
                Ok((cw, _)) => format!("cw={}", hex(&cw)),
                Err(e) => format!("cw=err:{:?}", e),
            };
            match plan {
                Some(pl) => format!("ok {} {}", pl.iter().map(|(n, m)| format!("{}:{:?}", n, m)).collect::<Vec<_>>().join(","), enc),
                None => format!("none {}", enc),
            }
        }
        _ => "unknown-op".into(),
    }
}

fn main() {
    panic::set_hook(Box::new(|_| {}));
    let stdin = io::stdin();
    let out = io::stdout();
    for line in stdin.lock().lines() {
        let line = line.unwrap();
        let l2 = line.clone();
        let r = panic::catch_unwind(move || run(&l2));
        let s = match r {
            Ok(s) => s,
            Err(e) => {
                let msg = if let Some(s) = e.downcast_ref::<&str>() { s.to_string() } else if let Some(s) = e.downcast_ref::<String>() { s.clone() } else { "?".into() };
                format!("panic {}", msg)
            }
        };
        let mut o = out.lock();
        writeln!(o, "{}", s).unwrap();
        o.flush().unwrap();
    }
}
