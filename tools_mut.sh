#!/bin/bash
# usage: tools_mut.sh <PROP> <file> <python-regex-old> <new>   (applies to /repo, runs check, restores)
prop=$1; file=$2; old=$3; new=$4
cd /repo || exit 9
python3 - "$file" "$old" "$new" <<'PY'
import sys,re
p,old,new=sys.argv[1:4]
s=open(p).read()
n=len(re.findall(old,s))
if n!=1:
    print("pattern matches",n,"times"); sys.exit(3)
s=re.sub(old,lambda m:new,s,count=1)
open(p,'w').write(s)
PY
[ $? -eq 0 ] || { git checkout -- .; exit 9; }
cd /verif && ./check $prop; rc=$?
git -C /repo checkout -- .
echo "exit=$rc"
