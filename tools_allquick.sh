cd /verif
for p in C04 C15 C16 C19 C18 C13 C11 C12 C14 C01 C02 C03 C05 C06 C07; do
  echo "=== $p $(date +%T)"; ( time ./check $p ) 2>&1 | grep -E "^unit|^OK|^VIOLATION|^UNDECIDED|^KNOWN|real" | cut -c1-220
done
echo "=== done $(date +%T)"
