#!/usr/bin/env python3
"""Regenerate MANIFEST.json from lib/config.py (run after editing config)."""
import json
import os
import sys

VERIF = os.path.dirname(os.path.dirname(os.path.abspath(__file__)))
sys.path.insert(0, os.path.join(VERIF, 'lib'))
import config

ALL = ['C%02d' % i for i in range(1, 20)]

man = {
    'version': 1,
    'setup_cmd': 'true',
    'hooks': {
        'guard': 'kani',
        'enable': 'no instrumentation is committed to /repo: Verus units are extracted from the working tree on every run, Kani harnesses are added to a scratch copy (add-only overlay, compiled with cfg(kani))',
        'baseline_off_cmd': 'cd /repo && cargo test --workspace --no-fail-fast --offline',
        'source_commits': [],
        'add_only': True,
    },
    'engines': [
        {'name': 'verus', 'path': 'lib/verus_unit.py', 'serves_properties': sorted(p for p, d in config.PROPERTIES.items() if any(config.UNITS[u]['engine'] == 'verus' for u in d['quick'] + d.get('thorough', []))),
         'kind_free_text': 'Verus 0.2026.09.13 on functions extracted verbatim from /repo (lib/extract.py, rules R1..R12), contracts from units/*.unit, specification library spec/*.rs'},
        {'name': 'kani', 'path': 'lib/kani_unit.py', 'serves_properties': sorted(p for p, d in config.PROPERTIES.items() if any(config.UNITS[u]['engine'] == 'kani' for u in d['quick'] + d.get('thorough', []))),
         'kind_free_text': 'Kani 0.68 / CBMC 6.11 harnesses and function contracts overlaid (add-only) on a scratch copy of /repo'},
    ],
    'checks': [],
    'not_applicable': [],
    'notes': 'exit 2 + UNDECIDED line = lost anchor / unsupported construct / resource limit (never an alarm). See DESIGN.md.',
}
for p in ALL:
    if p in config.PROPERTIES:
        d = config.PROPERTIES[p]
        man['checks'].append({
            'property_id': p,
            'quick_cmd': './check %s --tier quick' % p,
            'thorough_cmd': './check %s --tier thorough' % p,
            'evidence_file': 'evidence/%s.json' % p,
            'replay_cmd_template': './check replay {path}',
            'engine': '+'.join(sorted(set(config.UNITS[u]['engine'] for u in d['quick'] + d.get('thorough', [])))),
            'level_claimed': {'category': 'proof', 'text': d['level_text'], 'design_ref': d.get('design_ref', 'DESIGN.md section 6')},
            'level_note': d['level_note'],
            'technique': d['technique'],
        })
    else:
        man['not_applicable'].append({'property_id': p, 'reason': config.NOT_APPLICABLE.get(p, 'check not built yet in this session (contract-based deductive verification; see DESIGN.md section 6)')})
json.dump(man, open(os.path.join(VERIF, 'MANIFEST.json'), 'w'), indent=1)
print('MANIFEST.json: %d checks, %d not applicable' % (len(man['checks']), len(man['not_applicable'])))
