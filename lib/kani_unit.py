"""Kani units: add-only overlay of harness modules on a scratch copy of /repo.

The scratch copy is the working tree of /repo (src/, Cargo.toml, Cargo.lock).  For
each unit one line is appended to the module file whose private items the
harness needs:

    #[cfg(kani)] #[path = "/verif/kani/<file>.rs"] mod kani_<unit>;

Nothing else is changed; the crate is compiled by `cargo kani`, so the code under
proof is the code of the working tree.
"""
import json
import os
import re
import shutil
import subprocess
import time

import config


class KResult:
    def __init__(self, name):
        self.name = name
        self.engine = 'kani'
        self.status = 'ok'
        self.reason = ''
        self.failed = []
        self.obligations = []
        self.discharged = 0
        self.functions = []
        self.rewrites = []
        self.dropped = []
        self.trusted = []
        self.times = {}
        self.cmd = ''
        self.wall = 0.0
        self.canary = None
        self.bounded = False
        self.bound = None
        self.lost_hints = []


def make_scratch(repo, work):
    dst = os.path.join(work, 'kani-repo')
    os.makedirs(dst)
    for n in ('Cargo.toml', 'Cargo.lock'):
        shutil.copy(os.path.join(repo, n), os.path.join(dst, n))
    shutil.copytree(os.path.join(repo, 'src'), os.path.join(dst, 'src'))
    os.makedirs(os.path.join(dst, '.cargo'))
    open(os.path.join(dst, '.cargo', 'config.toml'), 'w').write('[net]\noffline = true\n')
    return dst


def harnesses_for(unit, tier):
    spec = config.UNITS[unit]
    hs = []
    only = [x for x in os.environ.get('VERIF_KANI_ONLY', '').split(',') if x]   # development aid: run exactly these harnesses
    if only:
        return [h for h in spec['harnesses'] if h['name'] in only]
    for h in spec['harnesses']:
        ht = h.get('tier', 'quick')
        if tier == 'quick' and ht != 'quick':
            continue
        if tier == 'thorough' and ht == 'extended':
            continue   # listed, never run by a registered command (too slow here); reported as not executed
        hs.append(h)
    return hs


def run_units(units, repo, verif, work, tier, jobs=None):
    try:
        return _run_units(units, repo, verif, work, tier, jobs)
    except Exception as e:   # a crashed runner is never a verdict
        import traceback
        out = []
        for u in units:
            r = KResult(u)
            r.status = 'undecided'
            r.reason = 'kani runner crashed: %s | %s' % (e, traceback.format_exc()[-400:].replace('\n', ' / '))
            out.append(r)
        return out


def _run_units(units, repo, verif, work, tier, jobs=None):
    t0 = time.time()
    results = {}
    scratch = make_scratch(repo, work)
    wanted = []   # (unit, harness spec)
    overlaid = set()
    for u in units:
        spec = config.UNITS[u]
        r = KResult(u)
        results[u] = r
        modfile = os.path.join(scratch, spec['module_file'])
        if not os.path.exists(modfile):
            r.status = 'undecided'
            r.reason = 'lost anchor: %s is gone' % spec['module_file']
            continue
        hfile = os.path.join(verif, 'kani', spec['file'])
        modname = 'kani_' + re.sub(r'[^a-z0-9]', '_', spec['file'].lower().replace('.rs', ''))
        if (spec['module_file'], spec['file']) not in overlaid:
            overlaid.add((spec['module_file'], spec['file']))
            with open(modfile, 'a') as fh:
                fh.write('\n#[cfg(kani)]\n#[path = "%s"]\nmod %s;\n' % (hfile, modname))
        r.rewrites.append({'rule': 'overlay', 'file': spec['module_file'], 'line': 0, 'what': 'appended #[cfg(kani)] mod %s (harness file kani/%s)' % (modname, spec['file'])})
        for attr in spec.get('crate_attrs', []):
            # a crate-level, kani-only feature gate a harness needs (e.g. to name the allocator parameter of a std method it stubs)
            libf = os.path.join(scratch, 'src', 'lib.rs')
            txt = open(libf).read()
            line = '#![cfg_attr(kani, %s)]\n' % attr
            if line not in txt:
                open(libf, 'w').write(line + txt)
            r.rewrites.append({'rule': 'overlay', 'file': 'src/lib.rs', 'line': 1, 'what': 'prepended %s (only under cfg(kani))' % line.strip()})
        for f in spec.get('functions', []):
            r.functions.append((f, spec['module_file'], spec.get('fn_status', 'proved (complete harness)')))
        for a in spec.get('assumes', []):
            r.trusted.append(a)
        hs = harnesses_for(u, tier)
        for h in hs:
            wanted.append((u, h))
    live = [(u, h) for (u, h) in wanted if results[u].status == 'ok']
    if not live:
        return list(results.values())
    jobs = jobs or int(os.environ.get('VERIF_KANI_JOBS', '8'))
    # memory: some units need several GB per harness (62 GB machine, no swap): cap the number of parallel CBMC runs
    if tier != 'quick':
        for u in units:
            cap = config.UNITS[u].get('max_jobs_thorough')
            if cap:
                jobs = min(jobs, cap)
    base_cmd = ['cargo', 'kani', '-Z', 'function-contracts', '-Z', 'stubbing', '--output-format', 'terse', '-j', str(jobs), '--exact']
    cmd = list(base_cmd)
    for u, h in live:
        cmd += ['--harness', full_name(u, h['name'])]
    env = dict(os.environ)
    env['CARGO_NET_OFFLINE'] = 'true'
    env['CARGO_TARGET_DIR'] = os.path.join(work, 'kani-target')
    # kani-driver keeps growing with the number of harnesses of one invocation (25 GB after a dozen large ones here):
    # run the harnesses in batches, one cargo-kani invocation per batch (the build is shared through the target dir)
    batch = int(os.environ.get('VERIF_KANI_BATCH', '32' if tier == 'quick' else '6'))
    out = ''
    timed_out = False
    for b0 in range(0, len(live), batch):
        part = live[b0:b0 + batch]
        bcmd = list(base_cmd)
        for u, h in part:
            bcmd += ['--harness', full_name(u, h['name'])]
        # allow the longest harness plus the queueing time
        tmo = [h.get('timeout', 300) for _, h in part]
        timeout = max(tmo) + (sum(tmo) // max(1, jobs) if len(tmo) > jobs else 0) + 240
        timeout = int(os.environ.get('VERIF_KANI_TIMEOUT', timeout))
        p = subprocess.Popen(bcmd, cwd=scratch, env=env, stdout=subprocess.PIPE, stderr=subprocess.STDOUT, text=True, start_new_session=True)
        try:
            o, _ = p.communicate(timeout=timeout)
        except subprocess.TimeoutExpired:
            timed_out = True
            kill_tree(p)
            o, _ = p.communicate()
        out += o + '\n'
    open(os.path.join(work, 'kani.log'), 'w').write(out)
    parsed = parse_kani(out)
    compile_error = None
    if not parsed and not timed_out:
        m = re.search(r'(error(\[E\d+\])?: .*)', out)
        compile_error = (m.group(1) if m else out[-600:])
    for u in units:
        r = results[u]
        if r.status != 'ok':
            continue
        r.cmd = ' '.join(cmd[:10]) + ' ' + ' '.join('--harness ' + full_name(uu, h['name']) for uu, h in live if uu == u)
        kinds = set()
        for uu, h in live:
            if uu != u:
                continue
            kinds.add(h.get('kind', 'complete'))
            pr = find_harness(parsed, h['name'])
            if pr is None:
                r.status = 'undecided'
                if compile_error:
                    r.reason = 'kani build error (unsupported construct / compile error): ' + compile_error[:300]
                elif timed_out:
                    r.reason = 'harness %s did not finish in %d s' % (h['name'], timeout)
                else:
                    r.reason = 'no result for harness %s' % h['name']
                continue
            ob_base = '%s/%s' % (u, h['name'])
            n = pr['total']
            r.times[h['name']] = {'ms': round(pr['time'] * 1000), 'rlimit': 0, 'success': pr['ok']}
            is_bounded = h.get('kind', 'complete') == 'bounded'
            if pr['ok']:
                # vacuity: every cover property of the harness must be satisfied
                if pr['covers_total'] and pr['covers_sat'] != pr['covers_total']:
                    r.status = 'undecided'
                    r.reason = 'vacuity: %d of %d cover properties of %s satisfied' % (pr['covers_sat'], pr['covers_total'], h['name'])
                    continue
                if not is_bounded:
                    r.obligations.append('%s#kani(%d checks)' % (ob_base, n))
                    r.discharged += 1
                else:
                    r.bounded_ok = getattr(r, 'bounded_ok', 0) + 1
            else:
                undec = [f for f in pr['failed'] if re.search(r'unwinding assertion|unsupported|not supported|unreachable code reached.*kani', f['desc'])]
                real = [f for f in pr['failed'] if f not in undec]
                if not is_bounded:
                    r.obligations.append('%s#kani(%d checks)' % (ob_base, n))
                if real:
                    for f in real:
                        r.failed.append({
                            'obligation': '%s#kani' % ob_base,
                            'detail': '%s (%s)' % (f['desc'], f['loc']),
                            'message': 'Kani check FAILED: ' + f['desc'],
                            'kind': 'kani',
                            'rendered': pr['raw'][-3000:],
                            'src': {'kind': 'src', 'file': f['file'], 'line': f['line'], 'fn': f['fn'], 'text': ''},
                            'harness': h['name'],
                            'bounded': is_bounded,
                        })
                    r.status = 'violation'
                elif undec:
                    if r.status == 'ok':
                        r.status = 'undecided'
                        r.reason = 'harness %s: %s' % (h['name'], undec[0]['desc'])
                else:
                    if r.status == 'ok':
                        r.status = 'undecided'
                        r.reason = 'harness %s failed without a failed check' % h['name']
        if kinds == {'bounded'}:
            r.bounded = True
        r.bound = '; '.join(sorted(set(h.get('bound', '') for uu, h in live if uu == u and h.get('bound'))))
        r.wall = time.time() - t0
    # concrete playback for failed harnesses (one at a time)
    for u in units:
        r = results[u]
        done = set()
        for f in r.failed:
            hn = f.get('harness')
            if not hn or hn in done or len(done) >= 1:
                continue   # one concrete counterexample per unit is enough
            done.add(hn)
            pb = playback(scratch, env, full_name(u, hn))
            for g in r.failed:
                if g.get('harness') == hn:
                    g['playback'] = pb
    return list(results.values())


def full_name(unit, harness):
    spec = config.UNITS[unit]
    mf = spec['module_file']
    p = mf[4:] if mf.startswith('src/') else mf
    p = p[:-3] if p.endswith('.rs') else p
    if p.endswith('/mod'):
        p = p[:-4]
    if p == 'lib':
        p = ''
    modname = 'kani_' + re.sub(r'[^a-z0-9]', '_', spec['file'].lower().replace('.rs', ''))
    return (p.replace('/', '::') + '::' if p else '') + modname + '::' + harness


def playback(scratch, env, harness):
    cmd = ['cargo', 'kani', '-Z', 'function-contracts', '-Z', 'stubbing', '-Z', 'concrete-playback', '--concrete-playback=print', '--exact', '--harness', harness]
    try:
        p = subprocess.run(cmd, cwd=scratch, env=env, stdout=subprocess.PIPE, stderr=subprocess.STDOUT, text=True, timeout=400)
    except subprocess.TimeoutExpired:
        return None
    tests = re.findall(r'```\n(.*?)```', p.stdout, re.S)
    vals = []
    for t in tests:
        if 'Check for `cover`' in t:
            continue
        m = re.search(r'vec!\[(.*)\];', t, re.S)
        if m:
            nums = re.findall(r'//\s*(.*?)\n\s*vec!\[([^\]]*)\]', m.group(1))
            vals.append({'check': (re.search(r'Check for `\w+`: "(.*?)"', t) or [None, ''])[1], 'values': [{'as_text': a.strip(), 'bytes': [int(x) for x in b.split(',') if x.strip()]} for a, b in nums]})
    return vals or None


def find_harness(parsed, name):
    for k, v in parsed.items():
        if k == name or k.endswith('::' + name):
            return v
    return None


def parse_kani(out):
    """Parse `--output-format terse` output, possibly interleaved by `-j` (lines are
    tagged `Thread N:`; a result block of thread N belongs to the harness that
    thread announced last)."""
    res = {}
    cur = {}          # thread -> harness name
    blocks = {}       # harness -> list of lines
    active = None     # harness whose block we are reading
    for line in out.split('\n'):
        m = re.match(r'^(?:Thread (\d+): )?Checking harness (.+?)\.\.\.\s*$', line)
        if m:
            th = m.group(1) or '0'
            cur[th] = m.group(2).strip()
            blocks.setdefault(cur[th], [])
            if m.group(1) is None:
                active = cur[th]
            continue
        m = re.match(r'^Thread (\d+):\s*$', line)
        if m:
            active = cur.get(m.group(1))
            continue
        if line.startswith('Manual Harness Summary') or line.startswith('Verification failed for') or line.startswith('Complete - '):
            active = None
            continue
        if active is not None:
            blocks[active].append(line)
            if line.startswith('Verification Time:'):
                active = None if len(cur) > 1 or True else active
    for name, lines in blocks.items():
        body = '\n'.join(lines)
        if 'VERIFICATION:-' not in body:
            continue
        ok = 'VERIFICATION:- SUCCESSFUL' in body
        m = re.search(r'\*\* (\d+) of (\d+) failed', body)
        total = int(m.group(2)) if m else 0
        nfail = int(m.group(1)) if m else 0
        mc = re.search(r'\*\* (\d+) of (\d+) cover properties satisfied', body)
        tm = re.search(r'Verification Time: ([\d.]+)s', body)
        failed = []
        for fm in re.finditer(r'Failed Checks: (.*?)\n\s*File: "([^"]*)", line (\d+), in ([^\n]*)', body, re.S):
            failed.append({'desc': re.sub(r'\s+', ' ', fm.group(1)).strip(), 'file': fm.group(2), 'line': int(fm.group(3)), 'fn': fm.group(4).strip(), 'loc': '%s:%s' % (fm.group(2), fm.group(3))})
        res[name] = {'ok': ok and nfail == 0, 'total': total, 'nfail': nfail,
                     'covers_sat': int(mc.group(1)) if mc else 0, 'covers_total': int(mc.group(2)) if mc else 0,
                     'time': float(tm.group(1)) if tm else 0.0, 'failed': failed, 'raw': body}
    return res


def kill_tree(p):
    import signal
    try:
        os.killpg(os.getpgid(p.pid), signal.SIGKILL)
    except Exception:
        try:
            p.kill()
        except Exception:
            pass
