"""Kani units: overlay on a scratch copy of /repo (filled in below)."""


def run_units(units, repo, verif, work, tier):
    return []
