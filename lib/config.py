"""Which units decide which property (DESIGN.md section 6)."""

UNITS = {
    'V-DEC': {'engine': 'verus', 'file': 'v_dec.unit'},
    'V-ECI': {'engine': 'verus', 'file': 'v_eci.unit'},
    'V-SYM': {'engine': 'verus', 'file': 'v_sym.unit'},
    'V-ENC': {'engine': 'verus', 'file': 'v_enc.unit'},
    'V-ASCII': {'engine': 'verus', 'file': 'v_ascii.unit'},
    'K-GF': {'engine': 'kani', 'file': 'k_gf.rs', 'module_file': 'src/errorcode/galois.rs',
             'functions': ['GF::mul', 'GF::div', 'GF::add', 'GF::sub', 'GF::neg', 'GF::mul<usize>', 'GF::primitive_power', 'GF::log', 'GF::{add,sub,mul,div}_assign'],
             'harnesses': [
                 {'name': 'gf_mul_all_pairs', 'kind': 'complete', 'timeout': 120},
                 {'name': 'gf_div_all_pairs', 'kind': 'complete', 'timeout': 120},
                 {'name': 'gf_add_sub_neg_all_pairs', 'kind': 'complete', 'timeout': 60},
                 {'name': 'gf_primitive_power_and_log', 'kind': 'complete', 'timeout': 120},
                 {'name': 'gf_mul_assign_matches', 'kind': 'complete', 'timeout': 120},
             ]},
    'K-CHIEN1': {'engine': 'kani', 'file': 'k_chien1.rs', 'module_file': 'src/errorcode/decoding/mod.rs',
             'functions': ['chien_search (degree <= 1 branch)'],
             'harnesses': [
                 {'name': 'chien_degree_one_all_coefficients', 'kind': 'complete', 'timeout': 120},
                 {'name': 'chien_empty_and_constant', 'kind': 'complete', 'timeout': 60},
             ]},
}

STANDING_ASSUMPTIONS = [
    'Verus 0.2026.09.13 + Z3; Kani 0.68 + CBMC 6.11; rustc of both pinned toolchains',
    'extraction rules R1..R12 of DESIGN.md 3.1 preserve behaviour (each application is logged in coverage.units[].rewrite_rules_applied)',
    "vstd's specifications of Vec, slices, Option, Result, String::push",
    'usize is 64 bit; codeword streams are shorter than 2^64/149 bytes',
    'the specification library (spec/*.rs) is a faithful transcription of ISO/IEC 16022 / ISO 21471 / ISO-8859 (guarded by published examples, not proved)',
]

NOT_APPLICABLE = {
    'C08': 'MatrixMap::try_from_bits (chunks/zip/cycle/all, BTreeSet) is outside the Verus subset and Kani does not finish it even for 10x10 (13 GB, >22 min); no contract within reach states "accepts exactly the renderings" (DESIGN.md section 7)',
    'C09': 'the postcondition "what is left after Ok is a codeword" is a statement about the algebra of locator/malfunction test/evaluator: iterator-adapter code outside Verus, and CBMC finishes neither decode on 10x10 nor Levinson-Durbin on 5 symbolic syndromes; with the stages replaced by contracts the property is the assumed contract itself (DESIGN.md section 7)',
    'C10': 'minimality needs an optimality proof of a pruned dynamic programme (optimize: drain/min_by_key/closures, outside Verus; Kani does not finish 2 input bytes); no per-function contract expresses it (DESIGN.md section 7)',
    'C17': 'Bitmap::path (Hierholzer with Vec::splice, RefCell, iterator compress_path) is outside Verus; Kani does not finish symbolic 2x2 bitmaps (DESIGN.md section 7)',
    'C18': 'agreement of planner and encoder is a coupling invariant over optimize + six Plan impls + six encoders, three of which and optimize are outside Verus and no pairwise bounded run finishes; the driver-level clause is proved under C13/C11 (DESIGN.md section 7)',
}

PROPERTIES = {
    'C04': {
        'quick': ['V-DEC'],
        'thorough': ['V-DEC'],
        'technique': 'Verus deductive proof: every function of src/decodation/mod.rs extracted verbatim, postcondition = ISO/IEC 16022 decoding spec function',
        'level_text': 'Unbounded deductive proof (Verus/Z3) on the real decoder functions, extracted verbatim on every run: for ALL codeword streams, whenever the ISO/IEC 16022 decoding function (spec/iso_decode.rs: ASCII, C40, Text, X12, EDIFACT, Base256, pad check, ECI designators, Macro 05/06, FNC1 first) accepts a stream, decode_data/decode_parts return exactly its bytes; each mode decoder carries its own functional postcondition, decode_parts composes them; panic-freedom and termination are proved for all inputs.',
        'level_note': 'Trusted: Verus+Z3, vstd specs, one assume_specification (Option::copied), extraction rules R1-R3b/R10-R12 (logged), and that spec/iso_decode.rs transcribes the standard faithfully. One-directional by design (conformant streams are accepted and decoded right; rejection of non-conformant streams is not claimed).',
        'not_decided': [],
        'assumed': [],
    },
    'C05': {
        'quick': ['V-DEC', 'V-ECI'],
        'thorough': ['V-DEC', 'V-ECI'],
        'technique': 'Verus deductive proof of panic-freedom and termination (overflow, bounds, unwrap, assert, decreases) on the verbatim decoder and charset functions; Kani for the Reed-Solomon leaf functions',
        'level_text': 'placeholder',
        'level_note': 'placeholder',
        'not_decided': [],
        'assumed': [],
    },
    'C12': {
        'quick': ['V-SYM'],
        'thorough': ['V-SYM'],
        'technique': 'Verus deductive proof: symbol table accessors against ISO/IEC 16022 Table 7 / ISO 21471 Table 1 for all 48 sizes',
        'level_text': 'placeholder',
        'level_note': 'placeholder',
        'not_decided': [],
        'assumed': [],
    },
    'C15': {
        'quick': ['V-ENC', 'V-DEC', 'V-ECI'],
        'thorough': ['V-ENC', 'V-DEC', 'V-ECI'],
        'technique': 'Verus deductive proof: write_eci / read_eci against the ISO designator forms for all ECI numbers, charset decoders against ISO-8859 code charts for all byte strings',
        'level_text': 'placeholder',
        'level_note': 'placeholder',
        'not_decided': [],
        'assumed': [],
    },
    'C16': {
        'quick': ['V-ENC', 'V-DEC'],
        'thorough': ['V-ENC', 'V-DEC'],
        'technique': 'Verus deductive proof: exact postcondition of use_macro_if_possible / with_size / backup window invariant; decoder macro and FNC1 handling inside iso_decode refinement',
        'level_text': 'placeholder',
        'level_note': 'placeholder',
        'not_decided': [],
        'assumed': [],
    },
}
