"""Run one Verus unit: extract from /repo, verify, map diagnostics to obligations."""
import bisect
import hashlib
import json
import os
import re
import subprocess
import time

import config
import extract
import rustscan as R

REFUTATION = [
    ('postcondition not satisfied', 'post'),
    ('precondition not satisfied', 'pre'),
    ('precondition not met', 'pre'),
    ('invariant not satisfied at end of loop body', 'inv-end'),
    ('invariant not satisfied before loop', 'inv-init'),
    ('loop invariant not satisfied', 'inv'),
    ('assertion failed', 'assert'),
    ('requires not satisfied', 'assert'),
    ('possible arithmetic underflow/overflow', 'arith'),
    ('possible division by zero', 'div0'),
    ('possible bit shift underflow/overflow', 'shift'),
    ('decreases not satisfied', 'decreases'),
    ('could not prove termination', 'decreases'),
    ('loop ensures not satisfied', 'loop-ensures'),
    ('failed this postcondition', 'post'),
    ('assertion not satisfied', 'assert'),
    ('unreachable', 'unreachable'),
    ('cannot show invariant holds', 'inv'),
    ('recommendation not met', None),
]
UNDECIDED_MARKERS = ['Resource limit (rlimit) exceeded', 'rlimit', 'timed out', 'timeout']


class UnitResult:
    def __init__(self, name):
        self.name = name
        self.engine = 'verus'
        self.status = 'ok'          # ok | violation | undecided
        self.reason = ''
        self.failed = []            # list of dict(obligation, message, src, clause, rendered)
        self.obligations = []       # ids
        self.discharged = 0
        self.functions = []
        self.rewrites = []
        self.dropped = []
        self.trusted = []
        self.times = {}
        self.cmd = ''
        self.wall = 0.0
        self.canary = None
        self.gen_path = None
        self.verified_count = 0
        self.samples = []
        self.lost_hints = []
        self.portfolio = None


def spec_lemmas(ex):
    names = []
    for t, origin in ex.out.chunks:
        if origin[0] == 'prelude':
            for m in re.finditer(r'(#\[verifier::external_body\]\s*)?pub\s+proof\s+fn\s+(\w+)|(#\[verifier::external_body\]\s*)?\bproof\s+fn\s+(\w+)', t):
                if m.group(1) or m.group(3):
                    continue
                names.append(m.group(2) or m.group(4))
    return names


def obligations_of(ex):
    obs = ['%s/spec#lemma:%s' % (ex.name, n) for n in spec_lemmas(ex)]
    for q, rel, status in ex.functions:
        if status == 'proved':
            obs.append('%s/%s#safety' % (ex.name, q))
    for (q, block, kw, idx, text) in ex.clauses:
        # clauses of assumed (stub) functions are assumptions, not obligations
        st = [s for (qq, _, s) in ex.functions if qq == q]
        if st and st[0] == 'assumed':
            continue
        if kw in ('requires', 'recommends'):
            continue
        obs.append('%s/%s#%s.%s[%d]' % (ex.name, q, block, kw, idx))
    return obs


def origin_at(spans, starts, byte_pos):
    i = bisect.bisect_right(starts, byte_pos) - 1
    if i < 0:
        return None, 0
    s, e, origin = spans[i]
    return origin, byte_pos - s


def describe_span(ex_name, spans, starts, sp, repo):
    origin, off = origin_at(spans, starts, sp['byte_start'])
    if origin is None:
        return {'kind': 'unknown'}
    k = origin[0]
    if k == 'src':
        _, rel, base, fn = origin
        text = extract.SourceFile.get(repo, rel).text
        # off is a byte offset into the chunk; chunks are ASCII except rare cases, treat as chars
        chunk_bytes = text[base:].encode('utf-8')[:off]
        pos = base + len(chunk_bytes.decode('utf-8', 'ignore'))
        line = R.line_of(text, pos)
        src_line = text.split('\n')[line - 1].strip()
        return {'kind': 'src', 'file': rel, 'line': line, 'fn': fn, 'text': src_line}
    if k == 'rw':
        _, rel, line, fn, rule = origin
        text = extract.SourceFile.get(repo, rel).text
        return {'kind': 'src', 'file': rel, 'line': line, 'fn': fn, 'text': text.split('\n')[line - 1].strip(), 'rule': rule}
    if k == 'contract':
        _, fn, block, text = origin
        # inserted text may have a leading newline added by the extractor
        return {'kind': 'contract', 'fn': fn, 'block': block, 'offset': off, 'ctext': text}
    if k == 'prelude':
        # enclosing lemma: last `proof fn NAME` before the offset in this chunk
        lemma = None
        for (cs, ce, o) in spans:
            if o is origin and cs <= sp['byte_start'] < ce:
                pass
        return {'kind': 'prelude', 'name': origin[1], 'offset': off}
    return {'kind': 'glue'}


def clause_of(desc):
    text = desc['ctext']
    off = desc['offset']
    # the extractor may have prefixed '\n'
    clauses = extract.split_clauses(text)
    # locate by searching each clause text position
    pos = 0
    best = None
    for i, (kw, cl) in enumerate(clauses):
        first = cl.split('\n')[0].strip()
        p = text.find(first, pos) if first else -1
        if p < 0:
            continue
        if p <= off + 1:
            best = (i, kw, cl)
        pos = p
    if best is None and clauses:
        best = (0, clauses[0][0], clauses[0][1])
    if best is None and text.strip():
        # a continuation block (clauses of an `ensures` opened by the block before it): split at top-level commas
        parts, depth, cur, start = [], 0, '', 0
        for k, ch in enumerate(text):
            if ch in '([{':
                depth += 1
            elif ch in ')]}':
                depth -= 1
            if ch == ',' and depth == 0:
                parts.append((start, cur)); cur = ''; start = k + 1
            else:
                cur += ch
        if cur.strip():
            parts.append((start, cur))
        parts = [(a, c) for a, c in parts if re.sub(r'//[^\n]*', '', c).strip()]
        for i, (a, c) in enumerate(parts):
            if a <= off + 1:
                best = (i, 'ensures+', c.strip())
    return best


def run_unit(unit_path, repo, verif, workdir, threads=8, twin=True, log=None):
    t0 = time.time()
    name = os.path.basename(unit_path)
    for u, spec in config.UNITS.items():   # the registered name, also when extraction fails
        if spec.get('file') == name:
            name = u
    res = UnitResult(name)
    extract.SourceFile.cache.clear()
    try:
        ex, text, spans = extract.generate(repo, verif, unit_path)
    except extract.LostAnchor as e:
        res.status = 'undecided'
        res.reason = 'lost anchor: %s' % e
        res.wall = time.time() - t0
        return res
    except (extract.UnitSyntax, R.ScanError) as e:
        res.status = 'undecided'
        res.reason = 'extractor: %s' % e
        res.wall = time.time() - t0
        return res
    res.name = ex.name or name
    res.functions = ex.functions
    res.rewrites = ex.rewrites
    res.dropped = ex.dropped
    res.lost_hints = ex.lost_hints
    res.obligations = obligations_of(ex)
    gen = os.path.join(workdir, res.name.replace('-', '_').lower() + '.rs')
    open(gen, 'w').write(text)
    res.gen_path = gen
    # trusted scan
    for mt in re.finditer(r'\b(assume|admit)\s*\(|#\[verifier::external_body\]|assume_specification|#\[verifier::external\b|#\[verifier::exec_allows_no_decreases_clause\]|#\[verifier::truncate\]', text):
        line = text.count('\n', 0, mt.start()) + 1
        ctx = text.split('\n')[line - 1].strip()
        if mt.group(0).startswith('#[verifier::external_body]'):
            # the function name is on one of the next lines
            nxt = text[mt.end():mt.end() + 300]
            m2 = re.search(r'\b(fn|struct)\s+(\w+)', nxt)
            if m2 and m2.group(1) == 'struct':
                ctx = 'external type (abstract stand-in): ' + m2.group(2)
            else:
                nm = m2.group(2) if m2 else '?'
                where = config.PROVED_IN.get(nm)
                ctx = 'external_body (contract assumed in this unit%s): %s' % ((', discharged by ' + where) if where else ', NOT proved anywhere', nm)
        elif mt.group(0).startswith('assume_specification'):
            seg = text[mt.start():mt.start() + 400]
            name = ctx
            try:
                o = seg.index('[', seg.index('>') if seg[len('assume_specification'):].lstrip().startswith('<') else 0)
                msk = R.code_mask(seg)
                name = ' '.join(seg[o + 1:R.match_close(seg, msk, o)].split())
            except Exception:
                pass
            # stand-ins for repository types whose contract is proved in another unit
            pv = None
            for pat, where in getattr(config, 'PROVED_STANDIN', []):
                if re.search(pat, name):
                    pv = where
                    break
            if pv:
                ctx = 'assume_specification on a stand-in of a repository type (contract proved in %s): %s' % (pv, name)
            else:
                ctx = 'assume_specification (std/dependency behaviour assumed): ' + name
        elif mt.group(1) in ('assume', 'admit'):
            ctx = 'ASSUME/ADMIT: ' + ctx
        res.trusted.append(ctx)
    if any(t.startswith('ASSUME/ADMIT') for t in res.trusted):
        res.status = 'undecided'
        res.reason = 'assume/admit present in generated file'
        return res
    rlimit = ex.rlimit or '50'
    cmd = ['verus', gen, '--output-json', '--time', '--multiple-errors', '50', '--error-format=json',
           '--rlimit', str(rlimit), '--num-threads', str(threads)]
    res.cmd = ' '.join(cmd)
    timeout = int(getattr(ex, 'timeout', None) or os.environ.get('VERIF_VERUS_TIMEOUT', '420'))
    out, err, timed_out, res.portfolio = run_portfolio(gen, text, cmd, timeout)
    # Z3 instability guard: the same text verified under another crate name is the same proof.  A run that
    # reports failures is repeated under two other names; if one of them discharges everything, that is the
    # result (a genuine violation fails under every name).
    first_refuted = _has_refutation(err)
    first_rlimit = (not first_refuted) and any(u in err for u in UNDECIDED_MARKERS)
    if not timed_out and '"success": true' not in out and os.environ.get('VERIF_NO_RETRY') != '1' and (first_refuted or first_rlimit):
        alt = []
        for suf in ('_r1', '_r2'):
            path = gen[:-3] + suf + '.rs'
            open(path, 'w').write(text)
            c = [cmd[0], path] + cmd[2:]
            alt.append((path, subprocess.Popen(c, stdout=open(path + '.out', 'w'), stderr=open(path + '.err', 'w'), text=True, start_new_session=True)))
        t_end = time.time() + timeout
        for path, pr in alt:
            try:
                pr.wait(timeout=max(1, t_end - time.time()))
            except subprocess.TimeoutExpired:
                kill_tree(pr)
        for path, pr in alt:
            try:
                o2 = open(path + '.out').read()
                if '"success": true' in o2 and json.loads(o2).get('verification-results', {}).get('success'):
                    out, err = o2, open(path + '.err').read()
                    res.portfolio = dict(res.portfolio or {}, retried=True, winner=os.path.basename(path), note='first run reported failures, an identical copy under another crate name verified')
                    break
            except Exception:
                pass
        else:
            if first_rlimit:
                # the first run only ran out of resources: take a variant that came to a definite answer, if any
                for path, pr in alt:
                    try:
                        e2 = open(path + '.err').read()
                        if _has_refutation(e2):
                            out, err = open(path + '.out').read(), e2
                            res.portfolio = dict(res.portfolio or {}, retried=True, winner=os.path.basename(path), note='first run hit the resource limit; a copy under another crate name refuted the obligation')
                            break
                    except Exception:
                        pass
                else:
                    res.portfolio = dict(res.portfolio or {}, retried=True, note='resource limit under three crate names')
            else:
                res.portfolio = dict(res.portfolio or {}, retried=True, note='failures confirmed under two more crate names')
    if log:
        open(log, 'w').write(err)
    starts = [s[0] for s in spans]
    try:
        js = json.loads(out)
    except Exception:
        js = {}
        if not timed_out:
            res.status = 'undecided'
            res.reason = 'verus produced no JSON: ' + err[-400:]
            return res
    vr = js.get('verification-results', {})
    res.verified_count = vr.get('verified', 0)
    # per-function times
    try:
        for m in js['times-ms']['smt']['smt-run-module-times']:
            for f in m.get('function-breakdown', []):
                res.times[f['function']] = {'ms': round(f['time-micros'] / 1000.0, 1), 'rlimit': f['rlimit'], 'success': f['success']}
        res.times['__total_ms'] = js['times-ms'].get('total')
        res.times['__smt_ms'] = js['times-ms']['smt'].get('smt-run')
    except Exception:
        pass
    # diagnostics
    hard_errors = []
    rl = []
    for line in err.split('\n'):
        line = line.strip()
        if not line.startswith('{'):
            continue
        try:
            d = json.loads(line)
        except Exception:
            continue
        if d.get('level') != 'error':
            continue
        msg = d.get('message', '')
        if msg.startswith('aborting due to'):
            continue
        if any(u in msg for u in UNDECIDED_MARKERS):
            rl.append(msg + ' @ ' + (d['spans'][0]['text'][0]['text'].strip() if d.get('spans') and d['spans'][0].get('text') else ''))
            continue
        kind = None
        for pat, k in REFUTATION:
            if pat in msg:
                kind = k
                break
        if kind is None:
            hard_errors.append(msg + ((' @ line %d' % d['spans'][0]['line_start']) if d.get('spans') else ''))
            continue
        prim = [s for s in d.get('spans', []) if s.get('is_primary')]
        sec = [s for s in d.get('spans', []) if not s.get('is_primary')]
        pdesc = describe_span(res.name, spans, starts, prim[0], repo) if prim else {'kind': 'unknown'}
        if pdesc.get('kind') == 'prelude':
            for t, origin in ex.out.chunks:
                if origin[0] == 'prelude' and origin[1] == pdesc['name']:
                    head = t.encode('utf-8')[:pdesc.get('offset', 0)].decode('utf-8', 'ignore')
                    mm = re.findall(r'proof\s+fn\s+(\w+)', head)
                    if mm:
                        pdesc['lemma'] = mm[-1]
                    break
        sdescs = [describe_span(res.name, spans, starts, s, repo) for s in sec]
        f = {'message': msg, 'kind': kind, 'rendered': d.get('rendered', '')[:3000]}
        contract = None
        src = None
        for dd in [pdesc] + sdescs:
            if dd['kind'] == 'contract' and contract is None:
                contract = dd
            if dd['kind'] == 'src' and src is None:
                src = dd
        fn = (src or contract or {}).get('fn', '?')
        if kind in ('pre',) and src is not None:
            # obligation lives at the call site
            callee = ''
            if contract is not None:
                cl = clause_of(contract)
                callee = '%s.%s[%d]' % (contract['fn'], cl[1], cl[0]) if cl else contract['fn']
            ob = '%s/%s#safety' % (res.name, src['fn'])
            f['detail'] = 'pre(%s) at %s:%d' % (callee, src['file'], src['line'])
        elif contract is not None:
            cl = clause_of(contract)
            if contract['block'].startswith('hint'):
                ob = '%s/%s#safety' % (res.name, contract['fn'])
                f['detail'] = 'ghost hint %s of %s (serves the function\'s contract)' % (contract['block'], contract['fn'])
                # a failing hint is reported against the explicit clauses of the function as well
            else:
                ob = '%s/%s#%s.%s[%d]' % (res.name, contract['fn'], contract['block'], cl[1] if cl else '?', cl[0] if cl else 0)
                f['detail'] = 'clause: ' + (' '.join(cl[2].split())[:300] if cl else '')
        elif src is not None:
            ob = '%s/%s#safety' % (res.name, src['fn'])
            f['detail'] = '%s at %s:%d' % (kind, src['file'], src['line'])
        elif pdesc['kind'] == 'prelude':
            ob = '%s/spec#lemma:%s' % (res.name, pdesc.get('lemma') or pdesc.get('name'))
            f['detail'] = 'inside the specification library (%s)' % pdesc.get('name')
        else:
            ob = '%s/?#%s' % (res.name, kind)
        f['obligation'] = ob
        f['src'] = src
        res.failed.append(f)
    if timed_out and not res.failed:
        res.status = 'undecided'
        res.reason = 'verifier did not finish in %d s (killed)' % timeout
    elif timed_out:
        res.status = 'violation'
        res.reason = 'verifier killed after %d s; refutations reported before that are kept' % timeout
    elif hard_errors:
        res.status = 'undecided'
        res.reason = 'tool error (unsupported construct / compile error): ' + ' | '.join(hard_errors[:5])
    elif res.failed:
        res.status = 'violation'
        if res.lost_hints:
            res.reason = 'note: ' + '; '.join(res.lost_hints[:3])
        if rl:
            res.reason = 'also rlimit: ' + '; '.join(rl[:3])
    elif rl:
        res.status = 'undecided'
        res.reason = 'resource limit: ' + '; '.join(rl[:3])
    elif not vr.get('success'):
        res.status = 'undecided'
        res.reason = 'verus reported failure without diagnostics: ' + err[-300:]
    failed_obs = set(f['obligation'] for f in res.failed)
    # a failing function makes all its obligations undischarged (conservative)
    failed_fns = set()
    for fname, t in res.times.items():
        if isinstance(t, dict) and not t.get('success', True):
            failed_fns.add(fname.split('::', 1)[-1])
    n_ok = 0
    for ob in res.obligations:
        fn = ob.split('/', 1)[1].split('#')[0]
        short = fn.split('::')[-1]
        if ob in failed_obs:
            continue
        if res.status != 'ok' and any(ff == short or ff.endswith('::' + short) for ff in failed_fns):
            continue
        n_ok += 1
    res.discharged = n_ok if res.status in ('ok', 'violation') else 0
    # twin
    if twin and res.status == 'ok':
        twin_info = make_twin(text, spans, ex)
        if twin_info:
            tpath = gen[:-3] + '_twin.rs'
            open(tpath, 'w').write(twin_info['text'])
            tcmd = ['verus', tpath, '--output-json', '--time', '--multiple-errors', '1', '--error-format=json', '--rlimit', str(min(int(rlimit), 8)), '--num-threads', str(threads)]
            tp = subprocess.Popen(tcmd, stdout=subprocess.PIPE, stderr=subprocess.PIPE, text=True, start_new_session=True)
            try:
                tout, terr = tp.communicate(timeout=240)
                res.canary = check_twin(twin_info, tout, terr)
            except subprocess.TimeoutExpired:
                kill_tree(tp)
                tp.communicate()
                res.canary = {'ok': True, 'inconclusive': True, 'why': 'must-fail twin did not finish in 240 s (no function was seen to prove its canary)'}
            if not res.canary['ok']:
                res.status = 'undecided'
                res.reason = 'vacuity canary: ' + res.canary['why']
    res.wall = time.time() - t0
    return res


def _has_refutation(err):
    for pat, k in REFUTATION:
        if k and ('"message":"%s' % pat) in err:
            return True
    return False


def run_portfolio(gen, text, cmd, timeout, grace=None):
    """Z3 is occasionally unstable on a *failing* query (it diverges instead of
    answering, and the answer depends on symbol names).  Run the file; if it has
    not finished after `grace` seconds start two more copies under different
    crate names (identical text) and take whichever finishes first."""
    grace = grace or int(os.environ.get('VERIF_VERUS_GRACE', '75'))
    t0 = time.time()
    procs = []

    def start(path):
        c = [cmd[0], path] + cmd[2:]
        of = open(path + '.out', 'w')
        ef = open(path + '.err', 'w')
        p = subprocess.Popen(c, stdout=of, stderr=ef, text=True, start_new_session=True)
        procs.append((p, path, of, ef))

    start(gen)
    extra_started = False
    winner = None
    while True:
        for (p, path, of, ef) in procs:
            if p.poll() is not None:
                winner = (p, path, of, ef)
                break
        if winner:
            break
        el = time.time() - t0
        if el > timeout:
            break
        if el > grace and not extra_started:
            extra_started = True
            for suf in ('_p1', '_p2'):
                path = gen[:-3] + suf + '.rs'
                open(path, 'w').write(text)
                start(path)
        time.sleep(0.2)
    for (p, path, of, ef) in procs:
        if winner is None or p is not winner[0]:
            kill_tree(p)
            try:
                p.wait(timeout=5)
            except Exception:
                pass
        of.close()
        ef.close()
    if winner is None:
        # keep partial stderr of the first run
        return '', open(gen + '.err').read(), True, {'variants': len(procs), 'winner': None}
    out = open(winner[1] + '.out').read()
    err = open(winner[1] + '.err').read()
    return out, err, False, {'variants': len(procs), 'winner': os.path.basename(winner[1]), 'wall_s': round(time.time() - t0, 1)}


def kill_tree(p):
    import signal
    try:
        os.killpg(os.getpgid(p.pid), signal.SIGKILL)
    except Exception:
        try:
            p.kill()
        except Exception:
            pass


def make_twin(text, spans, ex):
    """Must-fail twin: every proved function with an `ensures` gets one extra
    clause `__canary_k()`, an uninterpreted predicate of its own.  It can only
    be proved if the function's context is contradictory (a contradictory
    `requires`, an assumed contract that yields false).  Callers learn nothing
    from it.  Returns dict(text, expect=[fn names])."""
    out = []
    expect = []
    proved = set(q for q, _, s in ex.functions if s in ('proved',))
    for t, origin in ex.out.chunks:
        if origin[0] == 'contract' and origin[2] == 'spec' and origin[1] in proved and re.search(r'\bensures\b', t):
            canary = '        crate::__canary_%d(), // must-fail twin\n' % len(expect)
            md = re.search(r'(?m)^\s*decreases\b', t)
            if md:
                # the extra clause belongs to `ensures`, not to a trailing `decreases`
                head = t[:md.start()].rstrip()
                if not head.endswith(','):
                    head += ','
                tt = head + '\n' + canary + t[md.start():]
            else:
                tt = t.rstrip()
                if not tt.endswith(','):
                    tt += ','
                tt += '\n' + canary
            out.append(tt)
            expect.append(origin[1])
        else:
            out.append(t)
    if not expect:
        return None
    decl = ''.join('pub uninterp spec fn __canary_%d() -> bool;\n' % i for i in range(len(expect)))
    full = ''.join(out)
    full = full.replace('verus! {\n', 'verus! {\n' + decl, 1)
    return {'text': full, 'expect': expect}


def check_twin(info, out, err):
    try:
        js = json.loads(out)
    except Exception:
        return {'ok': False, 'why': 'twin produced no JSON'}
    if js.get('verification-results', {}).get('encountered-vir-error') or 'function-breakdown' not in out:
        m = re.search(r'"message":"([^"]*)","code":[^,]*,"level":"error"', err)
        return {'ok': False, 'why': 'must-fail twin did not compile: ' + (m.group(1)[:200] if m else '?')}
    failing = set()
    for m in js.get('times-ms', {}).get('smt', {}).get('smt-run-module-times', []):
        for f in m.get('function-breakdown', []):
            if not f.get('success', True):
                failing.add(f['function'].split('::', 1)[-1])
    # count `false` clause refutations
    n_false = 0
    for line in err.split('\n'):
        if line.startswith('{') and '"postcondition not satisfied"' in line and 'must-fail twin' in line:
            n_false += 1
    missing = []
    for q in info['expect']:
        short = q.split('::')[-1]
        if not any(f == short or f.endswith('::' + short) for f in failing):
            missing.append(q)
    ok = not missing
    return {'ok': ok, 'expected_to_fail': len(info['expect']), 'failed_as_expected': len(info['expect']) - len(missing),
            'why': ('functions that verified `ensures false`: %s' % ', '.join(missing)) if missing else ''}
