"""Rust-aware text scanning used by the extractor.

Not a parser: a lexer-level scanner that knows strings, byte strings, raw
strings, char literals vs. lifetimes, line and (nested) block comments, and
bracket nesting.  Enough to find items, function bodies and loops by name and
to copy their text byte for byte.
"""
import re

IDENT = re.compile(r'[A-Za-z_][A-Za-z0-9_]*')


class ScanError(Exception):
    pass


def code_mask(text):
    """Return a bytearray m with m[i] = 1 iff text[i] is code (not inside a
    string / char literal / comment).  Delimiters of literals count as
    non-code as well."""
    n = len(text)
    m = bytearray(b'\x01') * n
    i = 0
    while i < n:
        c = text[i]
        if c == '/' and i + 1 < n and text[i + 1] == '/':
            j = text.find('\n', i)
            if j < 0:
                j = n
            for k in range(i, j):
                m[k] = 0
            i = j
        elif c == '/' and i + 1 < n and text[i + 1] == '*':
            depth = 1
            j = i + 2
            while j < n and depth > 0:
                if text.startswith('/*', j):
                    depth += 1
                    j += 2
                elif text.startswith('*/', j):
                    depth -= 1
                    j += 2
                else:
                    j += 1
            for k in range(i, j):
                m[k] = 0
            i = j
        elif c == '"' or (c == 'b' and i + 1 < n and text[i + 1] == '"' and not _ident_before(text, i)):
            s = i
            if c == 'b':
                i += 1
            j = i + 1
            while j < n and text[j] != '"':
                if text[j] == '\\':
                    j += 1
                j += 1
            j += 1
            for k in range(s, min(j, n)):
                m[k] = 0
            i = j
        elif (c == 'r' or (c == 'b' and i + 1 < n and text[i + 1] == 'r')) and not _ident_before(text, i) and _raw_start(text, i):
            s = i
            j = i + (2 if c == 'b' else 1)
            hashes = 0
            while text[j] == '#':
                hashes += 1
                j += 1
            # text[j] == '"'
            close = '"' + '#' * hashes
            e = text.find(close, j + 1)
            if e < 0:
                raise ScanError('unterminated raw string')
            e += len(close)
            for k in range(s, e):
                m[k] = 0
            i = e
        elif c == "'" or (c == 'b' and i + 1 < n and text[i + 1] == "'" and not _ident_before(text, i)):
            s = i
            q = i + (1 if c == 'b' else 0)
            # char literal or lifetime?
            if q + 1 < n and text[q + 1] == '\\':
                j = q + 2
                while j < n and text[j] != "'":
                    j += 1
                j += 1
                for k in range(s, min(j, n)):
                    m[k] = 0
                i = j
            elif q + 2 < n and text[q + 2] == "'":
                for k in range(s, q + 3):
                    m[k] = 0
                i = q + 3
            else:
                # lifetime: leave as code
                i = q + 1
        else:
            i += 1
    return m


def _ident_before(text, i):
    return i > 0 and (text[i - 1].isalnum() or text[i - 1] == '_')


def _raw_start(text, i):
    j = i
    if text[j] == 'b':
        j += 1
    if j >= len(text) or text[j] != 'r':
        return False
    j += 1
    while j < len(text) and text[j] == '#':
        j += 1
    return j < len(text) and text[j] == '"'


OPEN = {'(': ')', '[': ']', '{': '}'}
CLOSE = {')', ']', '}'}


def match_close(text, mask, i):
    """text[i] is an opening bracket in code; return index of its partner."""
    assert text[i] in OPEN and mask[i]
    depth = 0
    n = len(text)
    j = i
    while j < n:
        if mask[j]:
            c = text[j]
            if c in OPEN:
                depth += 1
            elif c in CLOSE:
                depth -= 1
                if depth == 0:
                    return j
        j += 1
    raise ScanError('unbalanced bracket at %d' % i)


ITEM_KW = ('fn', 'struct', 'enum', 'const', 'static', 'trait', 'impl', 'type', 'mod', 'use', 'macro_rules', 'union', 'extern')
BRACE_ITEMS = ('fn', 'struct', 'enum', 'trait', 'impl', 'mod', 'macro_rules', 'union', 'extern')


class Item:
    __slots__ = ('kind', 'name', 'start', 'end', 'head_start', 'attrs', 'body_open', 'body_close', 'header')

    def __repr__(self):
        return 'Item(%s %s %d..%d)' % (self.kind, self.name, self.start, self.end)


def _skip_ws_comments(text, mask, i, end):
    while i < end:
        if text[i].isspace():
            i += 1
        elif not mask[i] and (text.startswith('//', i) or text.startswith('/*', i)):
            # skip the whole comment
            while i < end and not mask[i]:
                # stop at end of this comment: a line comment ends at newline
                if text[i] == '\n':
                    break
                i += 1
        else:
            break
    return i


def items_in(text, mask, lo, hi):
    """Items between lo and hi (a file: 0..len; an impl/trait body: inside the
    braces).  start includes attributes and doc comments; head_start is the
    first token after attributes."""
    out = []
    i = lo
    while True:
        i = _skip_plain_ws(text, i, hi)
        if i >= hi:
            break
        start = i
        attrs = []
        # leading doc comments / comments / attributes
        while i < hi:
            i = _skip_plain_ws(text, i, hi)
            if i >= hi:
                break
            if not mask[i] and (text.startswith('//', i)):
                j = text.find('\n', i)
                i = hi if j < 0 else min(j + 1, hi)
            elif not mask[i] and text.startswith('/*', i):
                while i < hi and not mask[i]:
                    i += 1
            elif text[i] == '#' and mask[i]:
                j = i + 1
                if text[j] == '!':
                    j += 1
                j = _skip_plain_ws(text, j, hi)
                if text[j] != '[':
                    raise ScanError('bad attribute at %d' % i)
                k = match_close(text, mask, j)
                attrs.append(text[i:k + 1])
                i = k + 1
            else:
                break
        if i >= hi:
            break
        head_start = i
        # header tokens until keyword
        j = i
        kind = None
        while j < hi:
            j = _skip_plain_ws(text, j, hi)
            mt = IDENT.match(text, j)
            if not mt:
                break
            w = mt.group(0)
            if w in ITEM_KW:
                if w == 'const' or w == 'extern' or w == 'unsafe':
                    # `const fn`, `extern "C" fn`, `unsafe fn/impl`
                    k = _skip_plain_ws(text, mt.end(), hi)
                    if w == 'extern' and (text[k] == '"' or not mask[k]):
                        while k < hi and not mask[k]:
                            k += 1
                        k = _skip_plain_ws(text, k, hi)
                    m2 = IDENT.match(text, k)
                    if m2 and m2.group(0) in ('fn', 'unsafe', 'impl', 'trait', 'extern'):
                        j = mt.end()
                        continue
                kind = w
                j = mt.end()
                break
            elif w in ('pub', 'unsafe', 'async', 'default'):
                j = mt.end()
                k = _skip_plain_ws(text, j, hi)
                if w == 'pub' and k < hi and text[k] == '(':
                    j = match_close(text, mask, k) + 1
            else:
                break
        if kind is None:
            # macro invocation or stray token: take to ';' or matching brace
            kind = 'other'
        it = Item()
        it.kind = kind
        it.start = start
        it.head_start = head_start
        it.attrs = attrs
        it.body_open = it.body_close = None
        # name
        name = None
        if kind == 'impl':
            name = None
        elif kind == 'macro_rules':
            k = _skip_plain_ws(text, j, hi)
            if text[k] == '!':
                k = _skip_plain_ws(text, k + 1, hi)
            mt = IDENT.match(text, k)
            name = mt.group(0) if mt else None
        elif kind not in ('use', 'other', 'extern'):
            k = _skip_plain_ws(text, j, hi)
            mt = IDENT.match(text, k)
            name = mt.group(0) if mt else None
        # find end
        k = j if kind != 'other' else head_start
        depth_end = None
        while k < hi:
            if mask[k]:
                c = text[k]
                if c in OPEN:
                    e = match_close(text, mask, k)
                    if c == '{' and kind in BRACE_ITEMS:
                        it.body_open, it.body_close = k, e
                        depth_end = e + 1
                        break
                    if c == '{' and kind == 'other':
                        depth_end = e + 1
                        # optional trailing ';'
                        break
                    k = e + 1
                    continue
                if c == ';':
                    depth_end = k + 1
                    break
            k += 1
        if depth_end is None:
            raise ScanError('item without end at %d: %r' % (start, text[start:start + 60]))
        it.end = depth_end
        it.header = ' '.join(text[head_start:(it.body_open if it.body_open is not None else it.end)].split())
        if kind == 'impl':
            it.name = it.header
        else:
            it.name = name
        out.append(it)
        i = depth_end
    return out


def _skip_plain_ws(text, i, hi):
    while i < hi and text[i].isspace():
        i += 1
    return i


LOOP_KW = re.compile(r'\b(while|for|loop)\b')


def loops_in(text, mask, lo, hi):
    """Loops between lo and hi in order of appearance.  Returns list of
    (kw_start, kw, body_open, body_close)."""
    out = []
    for mt in LOOP_KW.finditer(text, lo, hi):
        s = mt.start()
        if not mask[s]:
            continue
        kw = mt.group(1)
        # `for` in `impl X for Y` / HRTB cannot occur inside a fn body we handle
        # find the body '{': first '{' at bracket depth 0 after the keyword
        k = mt.end()
        depth = 0
        body = None
        while k < hi:
            if mask[k]:
                c = text[k]
                if c in '([':
                    k = match_close(text, mask, k) + 1
                    continue
                if c == '{':
                    body = k
                    break
                if c == ';':
                    break
            k += 1
        if body is None:
            continue
        out.append((s, kw, body, match_close(text, mask, body)))
    return out


def line_of(text, pos):
    return text.count('\n', 0, pos) + 1
