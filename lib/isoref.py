"""Executable reference decoder for ISO/IEC 16022 data codewords (5.2), written from the
standard's text like spec/iso_decode.rs (same structure, independent code).  Used only to
concretise an already refuted obligation into a failing input (witness search) and to
check oracle examples.  Returns bytes or None (stream not accepted by the reference)."""

C40_BASE = b' 0123456789ABCDEFGHIJKLMNOPQRSTUVWXYZ'
TEXT_BASE = b' 0123456789abcdefghijklmnopqrstuvwxyz'
SH2 = b'!"#$%&\'()*+,-./:;<=>?@[\\]^_'
C40_SH3 = bytes([96]) + bytes(range(97, 123)) + bytes([123, 124, 125, 126, 127])
TEXT_SH3 = bytes([96]) + bytes(range(65, 91)) + bytes([123, 124, 125, 126, 127])
HEAD05 = b'[)>\x1e05\x1d'
HEAD06 = b'[)>\x1e06\x1d'
TRAIL = b'\x1e\x04'


def derand253(ch, pos):
    t = ch - (((149 * pos) % 253) + 1)
    return t if t >= 1 else t + 254


def derand255(ch, pos):
    t = ch - (((149 * pos) % 255) + 1)
    return t if t >= 0 else t + 256


def eci_designator(s):
    if not s:
        return None
    c1 = s[0]
    if 1 <= c1 <= 127:
        return 1, c1 - 1
    if 128 <= c1 <= 191:
        if len(s) < 2 or not (1 <= s[1] <= 254):
            return None
        return 2, (c1 - 128) * 254 + (s[1] - 1) + 127
    if 192 <= c1 <= 207:
        if len(s) < 3 or not (1 <= s[1] <= 254) or not (1 <= s[2] <= 254):
            return None
        return 3, (c1 - 192) * 64516 + (s[1] - 1) * 254 + (s[2] - 1) + 16383
    return None


def ascii_run(s, pos, out, ecis):
    """-> (rest, pos, next mode) or None"""
    upper = False
    i = 0
    while i < len(s):
        ch = s[i]
        if upper and not (1 <= ch <= 128):
            return None
        if 1 <= ch <= 128:
            out.append(ch + 127 if upper else ch - 1)
            upper = False
        elif ch == 129:
            for k in range(i + 1, len(s)):
                if derand253(s[k], pos + k) != 129:
                    return None
            return b'', pos + len(s), 'ascii'
        elif 130 <= ch <= 229:
            out.append(48 + (ch - 130) // 10)
            out.append(48 + (ch - 130) % 10)
        elif ch in (230, 231, 238, 239, 240):
            return s[i + 1:], pos + i + 1, {230: 'c40', 231: 'b256', 238: 'x12', 239: 'text', 240: 'edifact'}[ch]
        elif ch == 232:
            out.append(29)
        elif ch == 235:
            upper = True
        elif ch == 241:
            d = eci_designator(s[i + 1:])
            if d is None:
                return None
            ecis.append((len(out), d[1]))
            i += d[0]
        else:
            return None
        i += 1
    if upper:
        return None
    return b'', pos + len(s), 'ascii'


def c40_run(s, out, base, sh3):
    shift = 0
    upper = False
    i = 0
    while len(s) - i > 1:
        if s[i] == 254:
            return s[i + 1:]
        if s[i] == 0 and s[i + 1] == 0:
            return None
        v = s[i] * 256 + s[i + 1] - 1
        for c in (v // 1600, (v % 1600) // 40, v % 40):
            if shift == 0:
                if c <= 2:
                    shift = c + 1
                    continue
                if c <= 39:
                    t = base[c - 3]
                else:
                    return None
            elif shift == 1:
                if c > 31:
                    return None
                t = c
            elif shift == 2:
                if c <= 26:
                    t = SH2[c]
                elif c == 30:
                    upper = True
                    shift = 0
                    continue
                else:
                    return None
            else:
                if c > 31:
                    return None
                t = sh3[c]
            out.append(t + 128 if upper else t)
            upper = False
            shift = 0
        i += 2
    rest = s[i:]
    if rest == b'\xfe':
        return b''
    return rest


def x12_run(s, out):
    i = 0
    while len(s) - i > 1:
        if s[i] == 254:
            return s[i + 1:]
        if s[i] == 0 and s[i + 1] == 0:
            return None
        v = s[i] * 256 + s[i + 1] - 1
        for c in (v // 1600, (v % 1600) // 40, v % 40):
            if c == 0:
                out.append(13)
            elif c == 1:
                out.append(42)
            elif c == 2:
                out.append(62)
            elif c == 3:
                out.append(32)
            elif 4 <= c <= 13:
                out.append(48 + c - 4)
            elif 14 <= c <= 39:
                out.append(65 + c - 14)
            else:
                return None
        i += 2
    rest = s[i:]
    if rest == b'\xfe':
        return b''
    return rest


def edi_char(v):
    return v if v >= 32 else v + 64


def edifact_run(s, out):
    i = 0
    while len(s) - i > 2:
        a, b, c = s[i], s[i + 1], s[i + 2]
        vals = (a // 4, (a % 4) * 16 + b // 16, (b % 16) * 4 + c // 64, c % 64)
        used = (1, 2, 3, 3)
        for k, v in enumerate(vals):
            if v == 31:
                return s[i + used[k]:]
            out.append(edi_char(v))
        i += 3
    return s[i:]


def b256_run(s, pos, out):
    if not s:
        return None
    d1 = derand255(s[0], pos)
    if d1 == 0:
        n, start = len(s) - 1, 1
    elif d1 < 250:
        n, start = d1, 1
    else:
        if len(s) < 2:
            return None
        n, start = 250 * (d1 - 249) + derand255(s[1], pos + 1), 2
    if len(s) - start < n:
        return None
    for k in range(n):
        out.append(derand255(s[start + k], pos + start + k))
    return s[start + n:]


LAST_MODES = set()   # non-ASCII modes the last decoded stream latched into
LAST_ORDER = []      # the same, in order of appearance (with repetitions)


def iso_decode(cw, strdec=False):
    """-> (bytes, ecis) or None"""
    LAST_MODES.clear()
    del LAST_ORDER[:]
    cw = bytes(cw)
    out = bytearray()
    ecis = []
    pos = 1
    mac = False
    if cw[:1] in (b'\xec', b'\xed'):
        mac = True
        out += HEAD05 if cw[0] == 236 else HEAD06
        cw = cw[1:]
        pos += 1
        if strdec:
            ecis += [(0, 26), (7, 0)]
    if cw[:1] == b'\xe8':
        cw = cw[1:]
        pos += 1
    mode = 'ascii'
    s = cw
    while s:
        n0 = len(s)
        if mode == 'ascii':
            r = ascii_run(s, pos, out, ecis)
            if r is None:
                return None
            s, pos, mode = r
            if mode != 'ascii':
                LAST_MODES.add(mode)
                LAST_ORDER.append(mode)
            continue
        if mode == 'b256':
            rest = b256_run(s, pos, out)
        elif mode == 'x12':
            rest = x12_run(s, out)
        elif mode == 'edifact':
            rest = edifact_run(s, out)
        elif mode == 'c40':
            rest = c40_run(s, out, C40_BASE, C40_SH3)
        else:
            rest = c40_run(s, out, TEXT_BASE, TEXT_SH3)
        if rest is None:
            return None
        pos += n0 - len(rest)
        s = rest
        mode = 'ascii'
    if mac:
        if ecis:
            ecis.append((len(out), 26))
        out += TRAIL
    return bytes(out), ecis


def rand255(ch, pos):
    t = ch + ((149 * pos) % 255) + 1
    return t if t <= 255 else t - 256


def rand253_pad(pos):
    t = 129 + ((149 * pos) % 253) + 1
    return t if t <= 254 else t - 254
