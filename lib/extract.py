"""Mechanical extraction of real functions from /repo into one Verus file.

A *unit file* (units/*.unit) lists the items of /repo/src to copy and the
contract text to insert.  Everything executable in the generated file is copied
byte for byte from the working tree of /repo, modulo the logged rewrite rules
R1..R11 (DESIGN.md 3.1).  Contract text (requires/ensures/invariant/decreases,
ghost hints) comes only from the unit file.

Unit file syntax (line oriented; `<<<` ... `>>>` are here-documents):

    unit NAME
    rlimit N                          (optional)
    prelude FILE                      (file under /verif/spec, copied verbatim)
    prelude <<< ... >>>
    raw <<< ... >>>                   (verus text emitted at this point)
    struct|enum|const|type|trait PATH NAME [as-is]
    fn PATH NAME ... end
    impl PATH "HEADER" ... end       (contains fn/stub/skip/extra)
    trait PATH NAME ... end          (contains fn (decl or default) / extra)
    stub PATH NAME ... end           (signature copied, body dropped: external_body)

  inside fn / stub:
    ret NAME                          name the return value
    attr TEXT                         extra attribute line
    spec <<< requires .., ensures .., >>>
    loop K <<< invariant .. decreases .. >>>      (K-th loop of the function, 0-based)
    loopname K NAME                   ghost iterator name for R3/R3b loop K
    top <<< ghost text at start of body >>>
    at "ANCHOR" [#N] before|after <<< ghost text >>>   (N-th occurrence, default unique)
    sig "OLD" => "NEW"                logged signature rewrite (e.g. R9)
"""
import os
import re
import sys

sys.path.insert(0, os.path.dirname(os.path.abspath(__file__)))
import rustscan as R


class LostAnchor(Exception):
    """Something the unit names is no longer in /repo: undecided, never a violation."""


class UnitSyntax(Exception):
    pass


# ----------------------------------------------------------------------------
# unit file parser
# ----------------------------------------------------------------------------

class Node:
    def __init__(self, kind, args, line):
        self.kind = kind
        self.args = args
        self.line = line
        self.children = []
        self.text = None

    def __repr__(self):
        return 'Node(%s %r)' % (self.kind, self.args)


BLOCK_KINDS = {'fn', 'impl', 'trait', 'stub', 'mod'}


def _split_args(s):
    out = []
    i = 0
    n = len(s)
    while i < n:
        if s[i].isspace():
            i += 1
        elif s[i] == '"':
            j = i + 1
            buf = []
            while j < n and s[j] != '"':
                if s[j] == '\\' and j + 1 < n:
                    j += 1
                buf.append(s[j])
                j += 1
            out.append(''.join(buf))
            i = j + 1
        else:
            j = i
            while j < n and not s[j].isspace():
                j += 1
            out.append(s[i:j])
            i = j
    return out


def parse_unit(path):
    lines = open(path).read().split('\n')
    root = Node('root', [], 0)
    stack = [root]
    i = 0
    while i < len(lines):
        ln = lines[i]
        s = ln.strip()
        i += 1
        if not s or s.startswith('#'):
            continue
        if s == 'end':
            if len(stack) == 1:
                raise UnitSyntax('%s:%d: stray end' % (path, i))
            stack.pop()
            continue
        heredoc = None
        if s.endswith('<<<'):
            s = s[:-3].strip()
            buf = []
            start = i
            while i < len(lines) and lines[i].strip() != '>>>':
                buf.append(lines[i])
                i += 1
            if i >= len(lines):
                raise UnitSyntax('%s:%d: unterminated <<<' % (path, start))
            i += 1
            heredoc = '\n'.join(buf)
        parts = _split_args(s)
        node = Node(parts[0], parts[1:], i)
        node.text = heredoc
        stack[-1].children.append(node)
        if node.kind in ('spec', 'loop', 'top', 'bottom', 'at', 'loopend', 'extra', 'raw') and heredoc is None and node.args and node.args[-1].startswith('@'):
            cpath = os.path.join(os.path.dirname(os.path.dirname(os.path.abspath(path))), 'contracts', node.args[-1][1:])
            node.text = open(cpath).read().rstrip('\n')
            node.args = node.args[:-1]
        if node.kind in BLOCK_KINDS and heredoc is None:
            # a block unless it is a one-line form inside impl/trait without body
            # one-line forms: "fn NAME -" (no contract)
            if node.args and node.args[-1] == '-':
                node.args = node.args[:-1]
            else:
                stack.append(node)
    if len(stack) != 1:
        raise UnitSyntax('%s: missing end for %r' % (path, stack[-1]))
    return root


# ----------------------------------------------------------------------------
# output builder with origin tracking
# ----------------------------------------------------------------------------

class Out:
    """Collects output text; every chunk carries an origin used to map verifier
    diagnostics back to /repo source lines or to named contract clauses."""

    def __init__(self):
        self.chunks = []   # (text, origin)

    def add(self, text, origin):
        if text:
            self.chunks.append((text, origin))

    def render(self):
        """-> (text, spans) where spans = list of (byte_start, byte_end, origin)"""
        pos = 0
        spans = []
        buf = []
        for text, origin in self.chunks:
            b = text.encode('utf-8')
            spans.append((pos, pos + len(b), origin))
            pos += len(b)
            buf.append(text)
        return ''.join(buf), spans


# origins:
#   ('src', relpath, abs_offset_of_chunk_start_in_file, fn_name)   verbatim source
#   ('rw', relpath, line, fn_name, rule)                           rewritten source
#   ('contract', fn_name, block, text)                              contract text
#   ('prelude', name)
#   ('glue',)


class SourceFile:
    cache = {}

    def __init__(self, repo, rel):
        self.rel = rel
        p = os.path.join(repo, rel)
        if not os.path.exists(p):
            raise LostAnchor('file %s is gone' % rel)
        self.text = open(p).read()
        try:
            self.mask = R.code_mask(self.text)
            self.items = R.items_in(self.text, self.mask, 0, len(self.text))
        except R.ScanError as e:
            raise LostAnchor('cannot scan %s: %s' % (rel, e))

    @classmethod
    def get(cls, repo, rel):
        k = (repo, rel)
        if k not in cls.cache:
            cls.cache[k] = SourceFile(repo, rel)
        return cls.cache[k]

    def is_test_item(self, it):
        for a in it.attrs:
            a2 = ''.join(a.split())
            if a2 in ('#[test]', '#[cfg(test)]'):
                return True
        return False

    def find(self, kind, name, within=None):
        items = self.items if within is None else R.items_in(self.text, self.mask, within.body_open + 1, within.body_close)
        cands = [it for it in items if it.kind == kind and it.name == name and not self.is_test_item(it)]
        if len(cands) == 0:
            raise LostAnchor('%s %s not found in %s' % (kind, name, self.rel))
        if len(cands) > 1:
            # cfg-alternatives (e.g. convert_chunk_extended): take the one without feature cfg
            plain = [c for c in cands if not any('feature' in a and 'not(' not in a for a in c.attrs)]
            if len(plain) == 1:
                return plain[0]
            raise LostAnchor('%s %s ambiguous in %s' % (kind, name, self.rel))
        return cands[0]

    def find_impl(self, header):
        want = ' '.join(header.split())
        cands = [it for it in self.items if it.kind == 'impl' and it.name == want]
        if len(cands) != 1:
            raise LostAnchor('impl "%s" not found (or ambiguous) in %s' % (want, self.rel))
        return cands[0]


DROP_ATTR = re.compile(r'#\[\s*(inline|allow|rustfmt::skip|doc|must_use|cfg_attr|deny|warn|cold|track_caller)\b')


class Extractor:
    def __init__(self, repo, verif, unit_path):
        self.repo = repo
        self.verif = verif
        self.unit_path = unit_path
        self.root = parse_unit(unit_path)
        self.out = Out()
        self.rewrites = []       # log of rewrite rule applications
        self.functions = []      # (qualified name, relpath, status) status in proved|assumed
        self.clauses = []        # (fn, block, idx, text) explicit contract clauses
        self.name = None
        self.rlimit = None
        self.dropped = []
        self.outer = []
        self.lost_hints = []

    # -- helpers -------------------------------------------------------------
    def log(self, rule, rel, line, what):
        self.rewrites.append({'rule': rule, 'file': rel, 'line': line, 'what': what})

    def strip_comments(self, text, mask_off=None):
        """Remove // and /* */ comments (incl. doc comments) from item text."""
        m = R.code_mask(text)
        out = []
        i = 0
        n = len(text)
        while i < n:
            if not m[i] and (text.startswith('//', i) or text.startswith('/*', i)):
                j = i
                if text.startswith('//', i):
                    while j < n and text[j] != '\n':
                        j += 1
                else:
                    depth = 0
                    while j < n:
                        if text.startswith('/*', j):
                            depth += 1
                            j += 2
                        elif text.startswith('*/', j):
                            depth -= 1
                            j += 2
                            if depth == 0:
                                break
                        else:
                            j += 1
                # keep newlines to preserve line structure
                out.append('\n' * text.count('\n', i, j))
                i = j
            else:
                out.append(text[i])
                i += 1
        return ''.join(out)

    def vis_rewrite(self, s):
        s2 = re.sub(r'\bpub\s*\(\s*(crate|super|self|in [^)]*)\s*\)', 'pub', s)
        return s2

    def keep_attrs(self, it, sf, derive_mode=True, structural=False):
        kept = []
        for a in it.attrs:
            if DROP_ATTR.match(a):
                continue
            a2 = ''.join(a.split())
            if a2.startswith('#[derive('):
                if not derive_mode:
                    continue
                names = [x.strip() for x in a[a.index('(') + 1:a.rindex(')')].split(',') if x.strip()]
                keep = [x for x in names if x in ('Clone', 'Copy', 'PartialEq', 'Eq', 'Debug')]
                if 'PartialEq' in keep and 'Eq' in keep and structural:
                    keep.append('Structural')
                self.log('R10', sf.rel, R.line_of(sf.text, it.start), 'derive(%s) -> derive(%s)' % (', '.join(names), ', '.join(keep)))
                if keep:
                    kept.append('#[derive(%s)]' % ', '.join(keep))
                continue
            if a2.startswith('#[cfg('):
                continue
            kept.append(a)
        return kept

    # -- rewrite rules on a function's text ------------------------------------
    def r1_const(self, text, sf, it):
        """R1: byte-string const -> array literal."""
        mt = re.match(r'(?s)\s*(pub(?:\([^)]*\))?\s+)?const\s+(\w+)\s*:\s*&\s*\[\s*u8\s*(?:;\s*(\d+)\s*)?\]\s*=\s*(b"(?:[^"\\]|\\.)*")\s*;', text)
        if not mt:
            return text
        lit = mt.group(4)
        data = decode_rust_bytes(lit, sf.rel)
        arr = ', '.join(str(b) for b in data)
        self.log('R1', sf.rel, R.line_of(sf.text, it.head_start), 'const %s: byte string of %d bytes re-spelled as array literal' % (mt.group(2), len(data)))
        return 'pub const %s: &\'static [u8; %d] = &[%s];' % (mt.group(2), len(data), arr)

    def r1b_const_slice(self, text, sf, it):
        """R1b: `const X: &[T] = &[a, b, ..];` -> `const X: &'static [T; n] = &[a, b, ..];`
        (the elided lifetime of a const is 'static; the array length is the number of elements)."""
        mt = re.match(r'(?s)(\s*(?:pub\s+)?const\s+\w+\s*:\s*)&\s*\[\s*([^;\]]+?)\s*\](\s*=\s*&\s*)\[', text)
        if not mt:
            return text
        m = R.code_mask(text)
        op = mt.end() - 1
        cl = R.match_close(text, m, op)
        elems = [e for e in split_top(text[op + 1:cl]) if e.strip()]
        self.log('R1b', sf.rel, R.line_of(sf.text, it.head_start), 'const slice of %d elements typed as &\'static [T; %d]' % (len(elems), len(elems)))
        return mt.group(1) + "&'static [" + mt.group(2) + '; %d]' % len(elems) + mt.group(3) + text[op:]

    def r11_asserts(self, text, rel, base_line):
        def repl(kind):
            def f(m):
                return m
            return f
        out = text
        for name, op in (('debug_assert_eq', '=='), ('debug_assert_ne', '!='), ('assert_eq', '=='), ('assert_ne', '!=')):
            while True:
                mt = re.search(r'\b' + name + r'\s*!\s*\(', out)
                if not mt:
                    break
                m = R.code_mask(out)
                if not m[mt.start()]:
                    break
                op_i = mt.end() - 1
                cl = R.match_close(out, m, op_i)
                inner = out[op_i + 1:cl]
                args = split_top(inner)
                if len(args) < 2:
                    raise LostAnchor('cannot rewrite %s' % name)
                new = ('debug_assert' if name.startswith('debug') else 'assert') + '!((%s) %s (%s))' % (args[0].strip(), op, args[1].strip())
                self.log('R11', rel, base_line + out.count('\n', 0, mt.start()), '%s!(a, b, ..) -> %s' % (name, new[:40]))
                out = out[:mt.start()] + new + out[cl + 1:]
        # assert!(cond, "msg", args) -> assert!(cond)
        pos = 0
        while True:
            mt = re.compile(r'\b(debug_assert|assert)\s*!\s*\(').search(out, pos)
            if not mt:
                break
            m = R.code_mask(out)
            if not m[mt.start()]:
                pos = mt.end()
                continue
            op_i = mt.end() - 1
            cl = R.match_close(out, m, op_i)
            args = split_top(out[op_i + 1:cl])
            if len(args) > 1:
                new = '%s!(%s)' % (mt.group(1), args[0].strip())
                self.log('R11', rel, base_line + out.count('\n', 0, mt.start()), 'assert message dropped')
                out = out[:mt.start()] + new + out[cl + 1:]
                pos = mt.start() + len(new)
            else:
                pos = cl
        # panic!("..", args) / unreachable!("..") -> no message arguments needed; Verus accepts panic!/unreachable! with literal
        return out

    # -- emitting ------------------------------------------------------------
    def emit_plain_item(self, node):
        kind = node.kind
        rel, name = node.args[0], node.args[1]
        sf = SourceFile.get(self.repo, rel)
        it = sf.find(kind, name)
        text = sf.text[it.head_start:it.end]
        attrs = self.keep_attrs(it, sf, structural=('structural' in node.args))
        text = self.strip_comments(text)
        text = self.vis_rewrite(text)
        if kind == 'const':
            text = self.r1_const(text, sf, it)
            text = self.r1b_const_slice(text, sf, it)
            if not text.lstrip().startswith('pub'):
                text = 'pub ' + text.lstrip()
        elif kind in ('struct', 'enum'):
            if not text.lstrip().startswith('pub'):
                text = 'pub ' + text.lstrip()
            if kind == 'struct' and 'private-fields' not in node.args:
                text = self.pub_fields(text)
        for a in attrs:
            self.out.add(a + '\n', ('glue',))
        extra_attrs = [c for c in node.children if c.kind == 'attr'] if node.children else []
        self.out.add(text + '\n\n', ('src', rel, it.head_start, name))

    def pub_fields(self, text):
        m = R.code_mask(text)
        # tuple struct
        mt = re.match(r'(?s)(\s*pub\s+struct\s+\w+\s*(?:<[^>{(]*>)?\s*)\(', text)
        if mt:
            op = mt.end() - 1
            cl = R.match_close(text, m, op)
            fields = split_top(text[op + 1:cl])
            nf = []
            for f in fields:
                fs = f.strip()
                if not fs:
                    continue
                if not fs.startswith('pub'):
                    fs = 'pub ' + fs
                nf.append(fs)
            return text[:op + 1] + ', '.join(nf) + text[cl:]
        i = text.find('{')
        if i < 0:
            return text
        cl = R.match_close(text, m, i)
        body = text[i + 1:cl]
        fields = split_top(body)
        nf = []
        for f in fields:
            fs = f.strip()
            if not fs:
                continue
            # strip field attributes
            while fs.startswith('#['):
                mm = R.code_mask(fs)
                e = R.match_close(fs, mm, fs.index('['))
                fs = fs[e + 1:].strip()
            if not fs.startswith('pub'):
                fs = 'pub ' + fs
            nf.append('    ' + fs + ',')
        return text[:i + 1] + '\n' + '\n'.join(nf) + '\n' + text[cl:]

    def fn_parts(self, sf, it):
        """-> (sig_text, body_text) with sig_text from head_start up to (excluding) the body '{'."""
        if it.body_open is None:
            t = sf.text[it.head_start:it.end].rstrip()
            if t.endswith(';'):
                t = t[:-1]
            return t, None
        return sf.text[it.head_start:it.body_open], sf.text[it.body_open:it.body_close + 1]

    def emit_fn(self, node, sf, it, qual, stub=False, in_trait_decl=False):
        rel = sf.rel
        name = it.name
        qname = (qual + '::' if qual else '') + name
        sig, body = self.fn_parts(sf, it)
        base = it.head_start
        sig_clean = self.vis_rewrite(self.strip_comments(sig))
        opts = {c.kind: c for c in node.children} if node else {}
        children = node.children if node else []
        # signature rewrites
        for c in children:
            if c.kind == 'sig':
                # sig "OLD" => "NEW"
                old, arrow, new = c.args[0], c.args[1], c.args[2]
                if sig_clean.count(old) != 1:
                    raise LostAnchor('signature anchor %r of %s not found exactly once' % (old, qname))
                sig_clean = sig_clean.replace(old, new)
                self.log(c.args[3] if len(c.args) > 3 else 'R9', rel, R.line_of(sf.text, base), 'signature of %s: %s => %s' % (qname, old, new))
        ret = None
        for c in children:
            if c.kind == 'ret':
                ret = c.args[0]
        if ret:
            sig_clean = name_return(sig_clean, ret, qname)
        attrs = []
        for c in children:
            if c.kind == 'attr':
                attrs.append(' '.join(c.args) if c.text is None else c.text)
        if stub:
            attrs.append('#[verifier::external_body]')
        for a in attrs:
            self.out.add(a + '\n', ('glue',))
        if not in_trait_decl and not sig_clean.lstrip().startswith('pub') and 'no-pub' not in (node.args if node else []):
            if not self._in_trait_impl:
                sig_clean = 'pub ' + sig_clean.lstrip()
        self.out.add(sig_clean.rstrip() + '\n', ('src', rel, base, qname))
        # contract
        spec_nodes = [c for c in children if c.kind == 'spec']
        for c in spec_nodes:
            self.add_contract(qname, 'spec', c.text)
        status = 'assumed' if stub else 'proved'
        if body is None:
            # trait method declaration
            self.out.add(';\n\n', ('glue',))
            self.functions.append((qname, rel, 'declared'))
            return
        if stub:
            self.out.add('{ unimplemented!() }\n\n', ('glue',))
            self.functions.append((qname, rel, 'assumed'))
            self.dropped.append('%s: body of %s replaced by its contract (external_body)' % (rel, qname))
            return
        self.functions.append((qname, rel, 'proved'))
        self._outlines = []
        self.emit_body(children, sf, it, qname)
        self.out.add('\n\n', ('glue',))
        self._pending_outlines = getattr(self, '_pending_outlines', []) + self._outlines
        self._outlines = []
        if not getattr(self, '_in_impl_block', False):
            self.flush_outlines()

    def flush_outlines(self):
        # R15: the outlined expressions become free functions next to the item they were taken from
        for (oname, osig, ospec, otext, orel, opos, oq) in getattr(self, '_pending_outlines', []):
            self.out.add('#[verifier::external_body]\npub fn %s%s\n' % (oname, osig), ('glue',))
            if ospec.strip():
                self.add_contract(oname, 'spec', ospec)
            self.out.add('{\n', ('glue',))
            self.out.add(self.strip_comments(otext), ('src', orel, opos, oq))
            self.out.add('\n}\n\n', ('glue',))
            self.functions.append((oname + ' (outlined from %s)' % oq, orel, 'assumed'))
            self.dropped.append('%s: expression of %s outlined into %s, verified against its assumed contract only' % (orel, oq, oname))
        self._pending_outlines = []

    def add_contract(self, qname, block, text):
        lines = text.split('\n')
        # split into clauses for naming
        idx = 0
        for kw, clause in split_clauses(text):
            self.clauses.append((qname, block, kw, idx, ' '.join(clause.split())))
            idx += 1
        self.out.add(text.rstrip() + '\n', ('contract', qname, block, text))

    def emit_body(self, children, sf, it, qname):
        rel = sf.rel
        text = sf.text
        mask = sf.mask
        bo, bc = it.body_open, it.body_close
        # Collect edit operations on the body region as (offset, priority, kind, payload)
        edits = []   # (pos, order, insert_text, origin)   or replacement (pos, end, text, origin)
        repl = []
        # loops
        loops = R.loops_in(text, mask, bo + 1, bc)
        loopnames = {}
        for c in children:
            if c.kind == 'loopname':
                loopnames[int(c.args[0])] = c.args[1]
        # R3 / R3b on every `for` loop
        for k, (ls, kw, lbo, lbc) in enumerate(loops):
            if kw != 'for':
                continue
            hdr = text[ls:lbo]
            mt = re.match(r'(?s)for\s+(.*?)\s+in\s+(.*?)\s*$', hdr)
            if not mt:
                continue
            pat, expr = mt.group(1), mt.group(2)
            itname = loopnames.get(k)
            pre = ('__it%d: ' % k) if False else ''
            if itname:
                pre = itname + ': '
            line = R.line_of(text, ls)
            m2 = re.match(r'(?s)(.*)\.iter\(\)\s*\.\s*(copied|cloned)\(\)\s*$', expr)
            if m2 and not expr.lstrip().startswith('['):
                new_hdr = 'for __r%d in %s%s.iter() ' % (k, pre, m2.group(1))
                repl.append((ls, lbo, new_hdr, ('rw', rel, line, qname, 'R3')))
                edits.append((lbo + 1, 0, ' let %s = *__r%d;' % (pat, k), ('rw', rel, line, qname, 'R3')))
                self.log('R3', rel, line, '%s: for %s in E.iter().%s() -> by-reference iteration + deref' % (qname, pat, m2.group(2)))
            elif expr.lstrip().startswith('['):
                # array literal, possibly followed by .iter().copied()
                e2 = expr
                m3 = re.match(r'(?s)(\[.*\])\s*(?:\.iter\(\)\s*\.\s*(?:copied|cloned)\(\))?\s*$', e2)
                if not m3:
                    continue
                arr = m3.group(1)
                new_hdr = 'let __arr%d = %s; for __r%d in %s__arr%d.iter() ' % (k, arr, k, pre, k)
                repl.append((ls, lbo, new_hdr, ('rw', rel, line, qname, 'R3b')))
                edits.append((lbo + 1, 0, ' let %s = *__r%d;' % (pat, k), ('rw', rel, line, qname, 'R3b')))
                self.log('R3b', rel, line, '%s: for %s in [array] -> let __arr = [..]; by-reference iteration + deref' % (qname, pat))
            elif itname:
                # plain range/iterator loop with a ghost iterator name
                new_hdr = 'for %s in %s%s ' % (pat, pre, expr)
                repl.append((ls, lbo, new_hdr, ('rw', rel, line, qname, 'ghost-iter-name')))
        # loop contracts
        for c in children:
            if c.kind == 'loop':
                k = int(c.args[0])
                if k >= len(loops):
                    raise LostAnchor('%s has no loop #%d any more' % (qname, k))
                ls, kw, lbo, lbc = loops[k]
                blk = 'loop%d' % k
                idx = 0
                for kwd, clause in split_clauses(c.text):
                    self.clauses.append((qname, blk, kwd, idx, ' '.join(clause.split())))
                    idx += 1
                edits.append((lbo, 1, '\n' + c.text.rstrip() + '\n', ('contract', qname, blk, c.text)))
        # end of the body of loop K
        for c in children:
            if c.kind == 'loopend':
                k = int(c.args[0])
                if k >= len(loops):
                    raise LostAnchor('%s has no loop #%d any more' % (qname, k))
                edits.append((loops[k][3], 0, '\n' + c.text + '\n', ('contract', qname, 'hint-loopend%d' % k, c.text)))
        # top
        for c in children:
            if c.kind == 'top':
                edits.append((bo + 1, 0, '\n' + c.text + '\n', ('contract', qname, 'hint-top', c.text)))
            if c.kind == 'bottom':
                edits.append((bc, 0, '\n' + c.text + '\n', ('contract', qname, 'hint-bottom', c.text)))
        # anchored hints
        hint_no = 0
        for c in children:
            if c.kind == 'at':
                anchor = c.args[0]
                rest = c.args[1:]
                nth = None
                if rest and rest[0].startswith('#'):
                    nth = int(rest[0][1:])
                    rest = rest[1:]
                where = rest[0]
                occ = []
                p = bo
                while True:
                    p = find_norm(text, anchor, p, bc)
                    if p is None:
                        break
                    if mask[p[0]]:
                        occ.append(p)
                    p = p[0] + 1
                # A ghost hint whose anchor is gone is dropped (and logged): the obligations it
                # served are still generated, they just have to be proved without it.
                if nth is None:
                    if len(occ) != 1:
                        self.lost_hints.append('hint anchor %r in %s matches %d times (need exactly 1): hint dropped' % (anchor, qname, len(occ)))
                        hint_no += 1
                        continue
                    a, b = occ[0]
                else:
                    if nth >= len(occ):
                        self.lost_hints.append('hint anchor %r #%d in %s not found: hint dropped' % (anchor, nth, qname))
                        hint_no += 1
                        continue
                    a, b = occ[nth]
                blk = 'hint%d' % hint_no
                hint_no += 1
                if where == 'before':
                    edits.append((a, 2, c.text + '\n', ('contract', qname, blk, c.text)))
                elif where == 'after':
                    edits.append((b, 2, '\n' + c.text + '\n', ('contract', qname, blk, c.text)))
                else:
                    raise UnitSyntax('at: before|after expected')
        # anchored replacement of a piece of the body:  replace "OLD" => "NEW" RULE   (rules R13, R14: see DESIGN 3.1)
        for c in children:
            if c.kind == 'replace':
                oldt, newt, rule = c.args[0], c.args[2], (c.args[3] if len(c.args) > 3 else 'R13')
                p0 = find_norm(text, oldt, bo, bc)
                if p0 is None or not mask[p0[0]] or find_norm(text, oldt, p0[0] + 1, bc) is not None:
                    raise LostAnchor('rewrite anchor %r of %s not found exactly once' % (oldt, qname))
                repl.append((p0[0], p0[1], newt, ('rw', rel, R.line_of(text, p0[0]), qname, rule)))
                self.log(rule, rel, R.line_of(text, p0[0]), '%s: %s => %s' % (qname, oldt, newt))
        # R15 outlining:  outline "START" "END" NAME "(params) -> (r: T)" "(call args)" <<< contract >>>
        # the expression from START to END is moved verbatim into a separate external_body function with an assumed contract
        for c in children:
            if c.kind == 'outline':
                st, en, oname, osig, ocall = c.args[0], c.args[1], c.args[2], c.args[3], c.args[4]
                p0 = find_norm(text, st, bo, bc)
                if p0 is None or not mask[p0[0]] or find_norm(text, st, p0[0] + 1, bc) is not None:
                    raise LostAnchor('outline start %r of %s not found exactly once' % (st, qname))
                p1 = find_norm(text, en, p0[0], bc)
                if p1 is None:
                    raise LostAnchor('outline end %r of %s not found' % (en, qname))
                line = R.line_of(text, p0[0])
                repl.append((p0[0], p1[1], oname + ocall, ('rw', rel, line, qname, 'R15')))
                self.log('R15', rel, line, '%s: expression `%s ... %s` outlined into external_body fn %s (assumed contract)' % (qname, st, en, oname))
                otext = text[p0[0]:p1[1]]
                if len(c.args) > 5:
                    # the receiver expression the outlined text starts from becomes the parameter:  "EXPR=>param"
                    so, sn = c.args[5].split('=>')
                    pp = find_norm(otext, so, 0, len(otext))
                    if pp is None:
                        raise LostAnchor('outline substitution %r of %s not found' % (so, qname))
                    otext = otext[:pp[0]] + sn + otext[pp[1]:]
                self._outlines.append((oname, osig, c.text or '', otext, rel, p0[0], qname))
        # R5 local macro expansion handled by directive `expand NAME`
        for c in children:
            if c.kind == 'expand':
                mh = [(h.args[1], h.args[2], h.text) for h in children if h.kind == 'expandhint' and h.args[0] == c.args[0]]
                self.expand_local_macro(c.args[0], text, mask, bo, bc, repl, rel, qname, mh)
        # assemble
        pieces = []   # (start, end, text or None, origin)
        repl.sort()
        edits.sort(key=lambda e: (e[0], e[1]))
        pos = bo
        events = []
        for r in repl:
            events.append((r[0], 100, 'repl', r))
        for e in edits:
            events.append((e[0], e[1], 'ins', e))
        events.sort(key=lambda e: (e[0], e[1]))
        out_chunks = []
        end = bc + 1
        for ev in events:
            p = ev[0]
            if p < pos:
                if ev[2] == 'ins' and p >= pos - 0:
                    pass
                else:
                    raise LostAnchor('overlapping edits in %s' % qname)
            if p > pos:
                out_chunks.append((text[pos:p], ('src', rel, pos, qname)))
                pos = p
            if ev[2] == 'repl':
                _, e_end, new, origin = ev[3]
                out_chunks.append((new, origin))
                pos = e_end
            else:
                _, _, ins, origin = ev[3]
                out_chunks.append((ins, origin))
        if pos < end:
            out_chunks.append((text[pos:end], ('src', rel, pos, qname)))
        # R9 body part: `rename OLD NEW` replaces an identifier in the copied statements (used for `mut self`)
        renames = [(c.args[0], c.args[1]) for c in children if c.kind == 'rename']
        if renames:
            self.log('R9', rel, R.line_of(text, bo), '%s: identifier(s) %s renamed in the body (by-value `mut` binding made a local)' % (qname, ', '.join('%s->%s' % r for r in renames)))
        # post-process source chunks: strip comments, R11
        for t, origin in out_chunks:
            if origin[0] == 'src':
                t2 = self.strip_comments(t)
                for (o_, n_) in renames:
                    mk = R.code_mask(t2)
                    t2 = ''.join(seg for seg in _rename_ident(t2, mk, o_, n_))
                t3 = self.r11_asserts(t2, rel, R.line_of(text, origin[2]))
                t3 = self.vis_rewrite(t3)
                if t3 != t2:
                    self.out.add(t3, ('rw', rel, R.line_of(text, origin[2]), qname, 'R11'))
                else:
                    self.out.add(t2, origin)
            elif origin[0] == 'rw' and origin[4] == 'R5':
                t2 = self.strip_comments(t)
                t3 = self.vis_rewrite(self.r11_asserts(t2, rel, origin[2]))
                self.out.add(t3, origin)
            else:
                self.out.add(t, origin)

    def expand_local_macro(self, mname, text, mask, bo, bc, repl, rel, qname, hints=()):
        """R5: a function-local macro_rules! with one arm is expanded textually."""
        mt = re.compile(r'macro_rules!\s*' + re.escape(mname) + r'\s*\{').search(text, bo, bc)
        if not mt or not mask[mt.start()]:
            raise LostAnchor('local macro %s not found in %s' % (mname, qname))
        mo = mt.end() - 1
        mc = R.match_close(text, mask, mo)
        arm = text[mo + 1:mc].strip()
        # single arm: (PATTERN) => { BODY } ;
        m_arm = re.match(r'(?s)\((.*?)\)\s*=>\s*\{(.*)\}\s*;?\s*$', arm)
        if not m_arm:
            raise LostAnchor('macro %s in %s is not single-arm' % (mname, qname))
        pattern, mbody = m_arm.group(1), m_arm.group(2)
        # ghost hints anchored inside the macro body (copied into every expansion)
        for (anchor, where, htext) in hints:
            pos = find_norm(mbody, anchor, 0, len(mbody))
            if pos is None or find_norm(mbody, anchor, pos[0] + 1, len(mbody)) is not None:
                self.lost_hints.append('hint anchor %r in macro %s of %s not found exactly once: hint dropped' % (anchor, mname, qname))
                continue
            if where == 'before':
                mbody = mbody[:pos[0]] + htext + '\n' + mbody[pos[0]:]
            else:
                mbody = mbody[:pos[1]] + '\n' + htext + '\n' + mbody[pos[1]:]
        # make sure there is one arm only: no top-level ';' followed by '('
        params = re.findall(r'\$(\w+)\s*:\s*(\w+)', pattern)
        seps = re.split(r'\$\w+\s*:\s*\w+', pattern)
        # remove definition (and trailing ';' if present)
        dend = mc + 1
        repl.append((mt.start(), dend, '', ('rw', rel, R.line_of(text, mt.start()), qname, 'R5')))
        self.log('R5', rel, R.line_of(text, mt.start()), '%s: local macro %s! removed, expanded at call sites' % (qname, mname))
        for cm in re.compile(r'\b' + re.escape(mname) + r'\s*!\s*\(').finditer(text, dend, bc):
            if not mask[cm.start()]:
                continue
            op = cm.end() - 1
            cl = R.match_close(text, mask, op)
            args = [a.strip() for a in split_top(text[op + 1:cl])]
            args = [a for a in args if a != '']
            if len(args) != len(params):
                raise LostAnchor('macro %s call arity mismatch in %s' % (mname, qname))
            exp = mbody
            for (pn, _), a in zip(params, args):
                exp = re.sub(r'\$' + pn + r'\b', lambda _m, a=a: a, exp)
            e_end = cl + 1
            # swallow trailing ';'
            j = e_end
            while j < bc and text[j].isspace():
                j += 1
            if j < bc and text[j] == ';':
                e_end = j + 1
            repl.append((cm.start(), e_end, '{' + exp + '}', ('rw', rel, R.line_of(text, cm.start()), qname, 'R5')))
            self.log('R5', rel, R.line_of(text, cm.start()), '%s: %s!(..) expanded' % (qname, mname))

    def process(self, nodes):
        for node in nodes:
            k = node.kind
            if k == 'unit':
                self.name = node.args[0]
            elif k == 'rlimit':
                self.rlimit = node.args[0]
            elif k == 'include':
                sub = parse_unit(os.path.join(os.path.dirname(self.unit_path), node.args[0]))
                self.process(sub.children)
            elif k == 'outer':
                self.outer.append(node.text)
            elif k == 'prelude' or k == 'raw':
                if node.text is not None:
                    self.out.add(node.text + '\n\n', ('prelude', 'inline@%d' % node.line))
                else:
                    p = os.path.join(self.verif, 'spec', node.args[0])
                    self.out.add(open(p).read() + '\n\n', ('prelude', node.args[0]))
            elif k in ('struct', 'enum', 'const', 'type'):
                self.emit_plain_item(node)
            elif k == 'flagsenum':
                self.emit_flags_enum(node)
            elif k == 'mod':
                if 'noglob' in node.args:
                    # scope as in the real module: only the names listed in the unit are imported
                    self.out.add('pub mod %s {\nuse vstd::prelude::*;\n' % node.args[0], ('glue',))
                else:
                    self.out.add('pub mod %s {\nuse super::*;\nuse vstd::prelude::*;\n' % node.args[0], ('glue',))
                self.process(node.children)
                self.out.add('}\n\n', ('glue',))
            elif k == 'fn' or k == 'stub':
                rel, name = node.args[0], node.args[1]
                sf = SourceFile.get(self.repo, rel)
                it = sf.find('fn', name)
                self._in_trait_impl = False
                self.emit_fn(node, sf, it, module_of(rel), stub=(k == 'stub'))
            elif k == 'impl':
                self.emit_impl(node)
            elif k == 'trait':
                self.emit_trait(node)
            else:
                raise UnitSyntax('unknown directive %s at line %d' % (k, node.line))

    def emit_flags_enum(self, node):
        """R12: `flags! { pub enum X: u8 { A = .., } }` -> the plain enum the macro declares."""
        rel, name = node.args[0], node.args[1]
        sf = SourceFile.get(self.repo, rel)
        cands = [it for it in sf.items if it.kind == 'other' and re.match(r'flags\s*!', sf.text[it.head_start:it.end])]
        for it in cands:
            body = sf.text[it.head_start:it.end]
            mt = re.search(r'(?s)(pub\s+)?enum\s+' + re.escape(name) + r'\s*:\s*\w+\s*\{', body)
            if not mt:
                continue
            m = R.code_mask(body)
            op = mt.end() - 1
            cl = R.match_close(body, m, op)
            inner = self.strip_comments(body[op:cl + 1])
            self.log('R12', rel, R.line_of(sf.text, it.head_start), 'flags! enum %s -> plain enum with the same variants and discriminants' % name)
            self.out.add('#[derive(Debug, Clone, Copy, PartialEq, Eq, Structural)]\npub enum %s ' % name, ('glue',))
            self.out.add(inner + '\n\n', ('src', rel, it.head_start + op, name))
            return
        raise LostAnchor('flags! enum %s not found in %s' % (name, rel))

    # -- driver ----------------------------------------------------------------
    def run(self):
        self._in_trait_impl = False
        self.out.add('#![allow(unused_imports, unused_variables, unused_mut, dead_code, unused_assignments, unused_parens, non_snake_case, unreachable_code, unreachable_patterns)]\nuse vstd::prelude::*;\nverus! {\n\n', ('glue',))
        self.process(self.root.children)
        self.out.add('\n} // verus!\n' + '\n'.join(self.outer) + '\nfn main() {}\n', ('glue',))
        return self.out.render()

    def emit_impl(self, node):
        self._in_impl_block = True
        rel, header = node.args[0], node.args[1]
        sf = SourceFile.get(self.repo, rel)
        it = sf.find_impl(header)
        hdr = ' '.join(sf.text[it.head_start:it.body_open].split())
        for c in node.children:
            if c.kind == 'header':
                # logged header rewrite  header "OLD" => "NEW"
                old, _, new = c.args[0], c.args[1], c.args[2]
                if hdr.count(old) != 1:
                    raise LostAnchor('impl header anchor %r' % old)
                hdr = hdr.replace(old, new)
                self.log('hdr', rel, R.line_of(sf.text, it.head_start), 'impl header: %s => %s' % (old, new))
        is_trait_impl = re.search(r'\bfor\b', hdr) is not None
        self.out.add(hdr + ' {\n', ('src', rel, it.head_start, header))
        sub = R.items_in(sf.text, sf.mask, it.body_open + 1, it.body_close)
        tyname = impl_type_name(hdr)
        listed = set()
        for c in node.children:
            if c.kind == 'extra':
                self.out.add(c.text + '\n\n', ('prelude', 'extra@%d' % c.line))
            elif c.kind in ('fn', 'stub'):
                name = c.args[0]
                listed.add(name)
                cands = [s for s in sub if s.kind == 'fn' and s.name == name]
                if len(cands) != 1:
                    raise LostAnchor('method %s not found in impl "%s" of %s' % (name, header, rel))
                self._in_trait_impl = is_trait_impl
                self.emit_fn(c, sf, cands[0], tyname, stub=(c.kind == 'stub'))
                self._in_trait_impl = False
            elif c.kind == 'assoc':
                # associated type/const copied verbatim
                name = c.args[0]
                cands = [s for s in sub if s.kind in ('type', 'const') and s.name == name]
                if len(cands) != 1:
                    raise LostAnchor('assoc %s not found' % name)
                s = cands[0]
                self.out.add(self.vis_rewrite(self.strip_comments(sf.text[s.head_start:s.end])) + '\n', ('src', rel, s.head_start, name))
        for s in sub:
            if s.kind == 'fn' and s.name not in listed:
                self.dropped.append('%s: method %s::%s not part of this unit' % (rel, tyname, s.name))
        self.out.add('}\n\n', ('glue',))
        self._in_impl_block = False
        self.flush_outlines()

    def emit_trait(self, node):
        rel, name = node.args[0], node.args[1]
        sf = SourceFile.get(self.repo, rel)
        it = sf.find('trait', name)
        hdr = ' '.join(sf.text[it.head_start:it.body_open].split())
        hdr = self.vis_rewrite(hdr)
        if not hdr.startswith('pub'):
            hdr = 'pub ' + hdr
        for c in node.children:
            if c.kind == 'header':
                old, _, new = c.args[0], c.args[1], c.args[2]
                if hdr.count(old) != 1:
                    raise LostAnchor('trait header anchor %r' % old)
                hdr = hdr.replace(old, new)
                self.log('hdr', rel, R.line_of(sf.text, it.head_start), 'trait header: %s => %s' % (old, new))
        self.out.add(hdr + ' {\n', ('src', rel, it.head_start, name))
        sub = R.items_in(sf.text, sf.mask, it.body_open + 1, it.body_close)
        listed = set()
        for c in node.children:
            if c.kind == 'extra':
                self.out.add(c.text + '\n\n', ('prelude', 'extra@%d' % c.line))
            elif c.kind in ('fn', 'stub'):
                mname = c.args[0]
                listed.add(mname)
                cands = [s for s in sub if s.kind == 'fn' and s.name == mname]
                if len(cands) != 1:
                    raise LostAnchor('method %s not found in trait %s' % (mname, name))
                self._in_trait_impl = True
                self.emit_fn(c, sf, cands[0], name, stub=False, in_trait_decl=True)
                self._in_trait_impl = False
            elif c.kind == 'assoc':
                aname = c.args[0]
                cands = [s for s in sub if s.kind in ('type', 'const') and s.name == aname]
                if len(cands) != 1:
                    raise LostAnchor('assoc %s not found' % aname)
                s = cands[0]
                self.out.add(self.strip_comments(sf.text[s.head_start:s.end]) + '\n', ('src', rel, s.head_start, aname))
        for s in sub:
            if s.kind == 'fn' and s.name not in listed:
                self.dropped.append('%s: trait method %s::%s not part of this unit' % (rel, name, s.name))
        self.out.add('}\n\n', ('glue',))


def _rename_ident(text, mask, old, new):
    i = 0
    n = len(text)
    pat = re.compile(r'\b' + re.escape(old) + r'\b')
    pos = 0
    for m in pat.finditer(text):
        if mask[m.start()]:
            yield text[pos:m.start()]
            yield new
            pos = m.end()
    yield text[pos:]


def decode_rust_bytes(lit, rel):
    """Decode a Rust byte-string literal (common escapes only)."""
    assert lit.startswith('b"') and lit.endswith('"')
    body = lit[2:-1]
    out = []
    i = 0
    simple = {'\\': 92, '"': 34, "'": 39, 'n': 10, 'r': 13, 't': 9, '0': 0}
    while i < len(body):
        c = body[i]
        if c == '\\':
            e = body[i + 1]
            if e in simple:
                out.append(simple[e])
                i += 2
            elif e == 'x':
                out.append(int(body[i + 2:i + 4], 16))
                i += 4
            else:
                raise LostAnchor('byte string with unusual escape in %s' % rel)
        else:
            if ord(c) > 127:
                raise LostAnchor('non-ASCII in byte string in %s' % rel)
            out.append(ord(c))
            i += 1
    return bytes(out)


def impl_type_name(hdr):
    # impl<'a> X<'a>  |  impl<'a> T for X<'a>
    h = hdr
    mt = re.search(r'\bfor\s+([A-Za-z_][\w:]*)', h)
    if mt:
        t = re.match(r'impl\s*(?:<[^>]*>)?\s*([A-Za-z_][\w:]*)', h)
        return '<%s as %s>' % (mt.group(1), t.group(1) if t else '?')
    t = re.match(r'impl\s*(?:<.*?>)?\s*([A-Za-z_][\w:]*)', h)
    return t.group(1) if t else hdr


def module_of(rel):
    p = rel
    if p.startswith('src/'):
        p = p[4:]
    p = p[:-3] if p.endswith('.rs') else p
    if p.endswith('/mod'):
        p = p[:-4]
    return p.replace('/', '::')


def find_norm(text, anchor, lo, hi):
    """Find anchor in text[lo:hi] where runs of whitespace in the anchor match
    any run of whitespace.  Returns (start, end) or None."""
    parts = anchor.split()
    pat = r'\s*'.join(re.escape(p) for p in parts)
    mt = re.compile(pat).search(text, lo, hi)
    if not mt:
        return None
    return (mt.start(), mt.end())


def split_top(s):
    """Split at top-level commas (brackets, strings and chars respected)."""
    m = R.code_mask(s)
    out = []
    depth = 0
    cur = 0
    i = 0
    n = len(s)
    angle = 0
    while i < n:
        if m[i]:
            c = s[i]
            if c in '([{':
                depth += 1
            elif c in ')]}':
                depth -= 1
            elif c == ',' and depth == 0:
                out.append(s[cur:i])
                cur = i + 1
        i += 1
    out.append(s[cur:])
    return out


CLAUSE_KW = re.compile(r'\b(requires|ensures|invariant_except_break|invariant|decreases|recommends|returns|no_unwind)\b')


def split_clauses(text):
    """Split a contract block into (keyword, clause_text) at top-level commas."""
    res = []
    m = R.code_mask(text)
    # locate keywords at depth 0
    depth = 0
    i = 0
    n = len(text)
    kw = None
    cur = None
    while i < n:
        if m[i]:
            c = text[i]
            if c in '([{':
                depth += 1
            elif c in ')]}':
                depth -= 1
            elif depth == 0:
                mt = CLAUSE_KW.match(text, i)
                if mt and (i == 0 or not (text[i - 1].isalnum() or text[i - 1] == '_')):
                    if kw is not None and text[cur:i].strip():
                        res.append((kw, text[cur:i].strip().rstrip(',')))
                    kw = mt.group(1)
                    i = mt.end()
                    cur = i
                    continue
                if c == ',' and kw is not None:
                    if text[cur:i].strip():
                        res.append((kw, text[cur:i].strip()))
                    cur = i + 1
        i += 1
    if kw is not None and text[cur:].strip():
        res.append((kw, text[cur:].strip().rstrip(',')))
    return res


def name_return(sig, ret, qname):
    """`-> T` => `-> (ret: T)` in a function signature (text up to the body)."""
    m = R.code_mask(sig)
    # find top-level '->' after the parameter list
    i = sig.find('fn')
    p = sig.find('(', i)
    # skip generics: find the '(' at angle depth 0
    depth = 0
    j = i + 2
    while j < len(sig):
        c = sig[j]
        if c == '<':
            depth += 1
        elif c == '>' and sig[j - 1] != '-':
            depth -= 1
        elif c == '(' and depth == 0:
            break
        j += 1
    cl = R.match_close(sig, m, j)
    k = sig.find('->', cl)
    if k < 0:
        raise LostAnchor('%s has no return type to name' % qname)
    # return type extends to `where` or end
    w = re.search(r'\bwhere\b', sig[k:])
    e = k + w.start() if w else len(sig)
    ty = sig[k + 2:e].strip()
    return sig[:k] + '-> (%s: %s)' % (ret, ty) + (' ' + sig[e:] if w else '')


def generate(repo, verif, unit_path):
    ex = Extractor(repo, verif, unit_path)
    text, spans = ex.run()
    return ex, text, spans


if __name__ == '__main__':
    ex, text, spans = generate(sys.argv[1], sys.argv[2], sys.argv[3])
    sys.stdout.write(text)
