"""Replay files and witness search.

A witness search is run ONLY after a verifier has refuted (or, for the portfolio
time-out case, failed to discharge) an obligation that is discharged on the
unchanged tree.  It concretises the failure into a call of the public API of the
real crate, which `./check replay <file>` re-executes.  It never decides anything
by itself.
"""
import hashlib
import itertools
import json
import os
import random
import subprocess
import time

import isoref


def replay_bin(verif, repo=None):
    """Build (incrementally) the replay tool against the working tree under check (default /repo)."""
    repo = os.path.abspath(repo or os.environ.get('VERIF_REPO', '/repo'))
    src = os.path.join(verif, 'replay')
    if repo != '/repo':
        # experiments on a scratch copy: same tool, path dependency pointed at the copy
        tag = hashlib.sha1(repo.encode()).hexdigest()[:8]
        src2 = os.path.join(verif, 'work', 'replay-src-' + tag)
        os.makedirs(os.path.join(src2, 'src'), exist_ok=True)
        open(os.path.join(src2, 'Cargo.toml'), 'w').write(open(os.path.join(src, 'Cargo.toml')).read().replace('path = "/repo"', 'path = "%s"' % repo))
        open(os.path.join(src2, 'src', 'main.rs'), 'w').write(open(os.path.join(src, 'src', 'main.rs')).read())
        src = src2
        tgt = os.path.join(verif, 'work', 'replay-target-' + tag)
    else:
        tgt = os.path.join(verif, 'work', 'replay-target')
    os.makedirs(tgt, exist_ok=True)
    env = dict(os.environ)
    env['CARGO_TARGET_DIR'] = tgt
    env['CARGO_NET_OFFLINE'] = 'true'
    p = subprocess.run(['cargo', 'build', '--offline', '--quiet'], cwd=src, env=env,
                       stdout=subprocess.PIPE, stderr=subprocess.STDOUT, text=True, timeout=600)
    b = os.path.join(tgt, 'debug', 'dmreplay')
    if p.returncode != 0 or not os.path.exists(b):
        return None
    return b


def run_lines(binary, lines, timeout=120):
    p = subprocess.run([binary], input='\n'.join(lines) + '\n', stdout=subprocess.PIPE, stderr=subprocess.DEVNULL, text=True, timeout=timeout)
    out = p.stdout.split('\n')
    return out[:len(lines)]


def hx(b):
    return bytes(b).hex() if len(b) else '-'


# ---------------------------------------------------------------------------------------------
# candidate generators
# ---------------------------------------------------------------------------------------------
BOUND = [0, 1, 2, 3, 31, 32, 39, 40, 47, 48, 57, 64, 65, 90, 91, 96, 127, 128, 129, 130, 229, 230, 231, 232, 235, 236, 238, 239, 240, 241, 242, 253, 254, 255]


def pads(prefix_len, n):
    return [129] + [isoref.rand253_pad(prefix_len + 2 + i) for i in range(n - 1)] if n > 0 else []


def dec_candidates(rng):
    # all streams of length <= 2
    for a in range(256):
        yield [a]
    for a in range(256):
        for b in range(256):
            yield [a, b]
    # latch + pair, all pairs
    for latch in (230, 239, 238, 240, 231):
        for a in range(256):
            for b in BOUND:
                yield [latch, a, b]
                yield [latch, b, a]
    # latch + two pairs / mixed tails over the boundary alphabet
    small = [0, 1, 2, 40, 91, 124, 125, 128, 200, 254, 255]
    for latch in (230, 239, 238, 240):
        for t in itertools.product(small, repeat=4):
            yield [latch] + list(t)
        for t in itertools.product(small, repeat=3):
            yield [latch] + list(t) + [254, 66]
            yield [latch] + list(t) + [66]
    # C40/Text value-level: every value triple with shifts, followed by unlatch + ASCII
    for latch in (230, 239):
        for c1 in range(40):
            for c2 in (0, 1, 2, 3, 14, 30, 31, 39):
                for c3 in (0, 1, 2, 3, 27, 30, 39):
                    v = 1600 * c1 + 40 * c2 + c3 + 1
                    for c4 in (5, 14, 30, 31):
                        w = 1600 * c4 + 40 * 3 + 3 + 1
                        yield [latch, v >> 8, v & 255, w >> 8, w & 255, 254, 66]
    # X12 all value triples
    for c1 in range(40):
        for c2 in (0, 1, 2, 3, 4, 13, 14, 39):
            v = 1600 * c1 + 40 * c2 + 3 + 1
            yield [238, v >> 8, v & 255]
            yield [238, v >> 8, v & 255, 254, 66, 129]
    # EDIFACT: all first bytes x boundary followers
    for a in range(256):
        for b in (0, 31, 64, 124, 125, 127, 240, 255):
            for c in (0, 31, 95, 124, 192, 223, 255):
                yield [240, a, b, c]
                yield [240, a, b, c, 66]
                yield [240, a, b, c, 16, 21, 1]
    # Base256 with boundary lengths
    for n in (0, 1, 2, 3, 248, 249, 250, 251, 252, 499, 500, 501, 1000, 1554, 1555):
        for short in (0, 1):
            for explicit in (True, False):
                body = [rng.randrange(256) for _ in range(n)]
                cw = [231]
                if not explicit:
                    cw.append(isoref.rand255(0, 2))
                elif n <= 249:
                    if n == 0:
                        continue
                    cw.append(isoref.rand255(n, 2))
                else:
                    cw.append(isoref.rand255(n // 250 + 249, 2))
                    cw.append(isoref.rand255(n % 250, 3))
                p0 = len(cw)
                m = n - short
                cw += [isoref.rand255(body[i], p0 + 1 + i) for i in range(max(m, 0))]
                yield cw
                if explicit and not short:
                    yield cw + [66, 67]
                    yield cw + [129] + [isoref.rand253_pad(len(cw) + 2 + i) for i in range(3)]
    # ASCII: upper shift, digit pairs, pads (right and wrong), ECI designators, macro, FNC1
    for a in BOUND:
        for b in BOUND:
            yield [235, a, b]
            yield [66, 235, a, b]
            yield [236, a, b]
            yield [237, a, b]
            yield [232, a, b]
            yield [236, 232, a, b]
            yield [a, 129, b]
            yield [a, b, 129] + [isoref.rand253_pad(4 + i) for i in range(3)]
            yield [a, b, 129] + [isoref.rand253_pad(4 + i) for i in range(2)] + [rng.randrange(1, 255)]
    for a in range(256):
        for b in (0, 1, 2, 127, 128, 253, 254, 255):
            for c in (0, 1, 2, 254, 255):
                yield [241, a, b, c, 66]
                yield [66, 241, a, b, c]


def dec_search(binary, budget_s, strdec=False):
    """first stream where the reference accepts and the code disagrees (wrong bytes, error or panic),
    or where the code panics at all"""
    rng = random.Random(1)
    t0 = time.time()
    batch = []
    op = 'decode_str' if strdec else 'decode_data'
    for cw in dec_candidates(rng):
        batch.append(cw)
        if len(batch) >= 20000:
            w = _dec_batch(binary, batch, op)
            if w:
                return w
            batch = []
            if time.time() - t0 > budget_s:
                return None
    return _dec_batch(binary, batch, op) if batch else None


def _dec_batch(binary, batch, op):
    res = run_lines(binary, ['%s %s' % (op, hx(cw)) for cw in batch])
    for cw, r in zip(batch, res):
        ref = isoref.iso_decode(cw)
        if r.startswith('panic'):
            return {'call': '%s %s' % (op, hx(cw)), 'observed': r, 'expected': 'a value or an error (never a panic)' if ref is None else 'ok ' + hx(ref[0])}
        if ref is None or op != 'decode_data':
            continue
        if ref[1]:
            if not r.startswith('err ECICode'):
                return {'call': '%s %s' % (op, hx(cw)), 'observed': r, 'expected': 'err ECICode (stream carries an ECI designator)'}
            continue
        want = 'ok ' + (ref[0].hex() if ref[0] else '')
        got = r.strip()
        if got != want.strip():
            return {'call': '%s %s' % (op, hx(cw)), 'observed': r, 'expected': want + '   (ISO/IEC 16022 reference decoder lib/isoref.py)'}
    return None


# ---------------------------------------------------------------------------------------------
def rt_inputs(rng):
    H5, H6, T = isoref.HEAD05, isoref.HEAD06, isoref.TRAIL
    bodies = [b'', b'A', b'AB', b'01', b'1234', b'12345', b'A1B2C3', b'AAAAAAAAAA', b'aaaaaaaaaa', b'.........', b'AAAAAAAA12', b'ABCDEFGH12345678',
              b'A' * 13, b'A' * 10, b'A' * 17, b'\xfaaaa', b'AB\rCDE', b'AB\r>ABC123>AB', b'\x85AB', bytes(range(128, 140)), b'*****', b'Hello, World!',
              b'\xab\xe4\xf6\xfc\xe9\xbb', b'AIMAIMAIM', b'aimaimaim', b'ab*de', b'A*B>C D', b'....', b'12*45', b'\x00\x01\x02', b'\x7f\x80\xff']
    # capacity and length-header boundaries (largest symbol: 1558 codewords = 1555 Base 256 bytes = 3116 digits = 2335 C40 characters)
    for n in (1554, 1555, 1556, 2800, 3116):
        yield b'\xe1' * n
    for n in (3116, 3117):
        yield b'7' * n
    for n in (2335, 2336):
        yield b'A' * n
    # two- and three-regime inputs: a run that suits one mode followed by characters it cannot carry
    regimes = [b'ABCDEFGHIJKL', b'abcdefghijkl', b'012345678901', b'\xab\xe4\xf6\xfc\xe9\xe0\xe1\xbb\xab\xe4\xf6\xfc', b'AB*CD>EF\rGH ', b'HEADER: A=1;', b'[]^_!"#$%&()']
    for i, a in enumerate(regimes):
        for j, b2 in enumerate(regimes):
            if i != j:
                yield a + b2
                yield a + b2[:5] + a[:6]
    # nested / repeated macro envelopes
    for a in (H5, H6):
        for b2 in (H5, H6):
            yield a + b2 + T
            yield a + b2 + b'AB' + T
            yield a + b2 + b'AB' + T + T
    # runs of EDIFACT / X12 / C40 characters with a short tail the mode cannot carry (end-of-data rules)
    for head in (b'A.B,C-D/E+F:', b'ABCD.EFGH/', b'ABCDEFGHIJKL', b'AB*CD>EF GH'):
        for t in (b'a', b'ab', b'abc', b'ab1', b'\xe1', b'12', b'1'):
            yield head + t
    for b in bodies:
        yield b
        for h in (H5, H6):
            yield h + b + T
            yield h + b
            yield b + T
            yield h + b + T + T
    yield H5
    yield H6
    yield T
    for n in (1, 2, 3, 4, 5, 7, 8, 9, 11, 20, 43, 44, 45, 100, 249, 250, 251):
        yield bytes(rng.randrange(256) for _ in range(n))
        yield bytes(rng.choice(b'0123456789') for _ in range(n))
        yield bytes(rng.choice(b'ABCDEFGHIJKLMNOPQRSTUVWXYZ 0123456789') for _ in range(n))
        yield bytes(rng.choice(b'abcdefghijklmnopqrstuvwxyz 0123456789') for _ in range(n))
        yield bytes(rng.choice(b'ABC*> \r0123456789') for _ in range(n))
        yield bytes(rng.choice(bytes(range(32, 95))) for _ in range(n))


# (mode sets without ASCII are included since the planner's start-mode defect was repaired, /repo bd6bbfc)
MODESETS = ['all', 'Ascii', 'Ascii,C40', 'Ascii,Text', 'Ascii,X12', 'Ascii,Edifact', 'Ascii,Base256', 'Ascii,C40,Text,X12', 'Ascii,Edifact,Base256',
            'X12,Base256', 'Edifact,Base256', 'C40,Text,X12,Edifact,Base256']
SYMSETS = ['default', 'all', 'Square10,Square12', 'Rect8x18,Rect8x32,Rect12x26', 'Square144', 'Rect26x40,Rect22x48', 'Square24,Rect8x64,Square22']


def rt_search(binary, budget_s):
    """encode -> (data codewords -> decode_data, bitmap -> DataMatrix::decode) must give the input back,
    and the reference decoder must read the data codewords as the input; encoding must not panic"""
    rng = random.Random(2)
    t0 = time.time()
    lines = []
    meta = []
    for data in rt_inputs(rng):
        for ms in MODESETS:
            for sy in (SYMSETS if len(data) < 12 else SYMSETS[:3] if len(data) < 30 else SYMSETS[:2]):
                for mac in ('1', '0'):
                    for fnc in ('0', '1'):
                        lines.append('rt %s %s %s %s %s' % (sy, ms, mac, fnc, hx(data)))
                        meta.append((data, ms, sy, mac, fnc))
        if len(lines) > 6000:
            w = _rt_batch(binary, lines, meta)
            if w:
                return w
            lines, meta = [], []
            if time.time() - t0 > budget_s:
                return None
    return _rt_batch(binary, lines, meta) if lines else None


def _rt_batch(binary, lines, meta):
    res = run_lines(binary, lines, timeout=300)
    for l, (data, ms, sy, mac, fnc), r in zip(lines, meta, res):
        if r.startswith('panic'):
            return {'call': l, 'observed': r, 'expected': 'a value or an error (never a panic)'}
        if r.startswith('err'):
            continue
        parts = r.split()
        want = 'ok:' + data.hex()
        d = [p for p in parts if p.startswith('data=')][0][5:]
        px = [p for p in parts if p.startswith('pixels=')][0][7:]
        if d != want or px != want:
            return {'call': l, 'observed': r, 'expected': 'data=%s pixels=%s (the encoded bytes)' % (want, want)}
        cw = bytes.fromhex(parts[2]) if parts[2] != '-' else b''
        ref = isoref.iso_decode(cw)
        if ref is None or ref[0] != data:
            return {'call': l, 'observed': r, 'expected': 'data codewords that the ISO/IEC 16022 reference decoder (lib/isoref.py) reads as the input; it reads %s' % (ref[0].hex() if ref else 'nothing (rejects the stream)')}
        # only enabled modes are latched into (C13)
        if ms != 'all':
            enabled = set({'Base256': 'b256'}.get(m, m.lower()) for m in ms.split(','))
            bad = sorted(isoref.LAST_MODES - enabled)
            if bad:
                return {'call': l, 'observed': r, 'expected': 'only the enabled modes %s; the data codewords latch into %s' % (ms, ', '.join(bad))}
        # macro / FNC1 shape (C16)
        H5, H6, T = isoref.HEAD05, isoref.HEAD06, isoref.TRAIL
        env = data.endswith(T) and (data.startswith(H5) or data.startswith(H6)) and len(data) >= 9
        want_macro = mac == '1' and fnc == '0' and env
        has_macro = cw[:1] in (b'\xec', b'\xed')
        if want_macro != has_macro:
            return {'call': l, 'observed': r, 'expected': 'macro codeword in first position exactly for a complete envelope with macros on and no FNC1 start (here: %s)' % want_macro}
        if fnc == '1' and cw[:1] != b'\xe8':
            return {'call': l, 'observed': r, 'expected': 'first codeword 232 (FNC1 start)'}
    return None


def eci_search(binary, budget_s):
    """decode_str of ECI designator + Base256/ASCII carried bytes against Python's own ISO-8859 tables"""
    lines = []
    meta = []
    for eci, codec in ((3, 'latin-1'), (11, 'iso8859-9'), (13, 'iso8859-11'), (27, 'ascii'), (26, 'utf-8')):
        for b in range(256):
            for tail in (b'', b'A'):
                raw = bytes([b]) + tail
                cw = [241, eci + 1]
                for x in raw:
                    cw += [x + 1] if x < 128 else [235, x - 127]
                lines.append('decode_str ' + hx(cw))
                meta.append((eci, codec, raw))
    res = run_lines(binary, lines)
    for l, (eci, codec, raw), r in zip(lines, meta, res):
        if r.startswith('panic'):
            return {'call': l, 'observed': r, 'expected': 'a value or an error (never a panic)'}
        printable = all((0x20 <= x <= 0x7e) or x >= 0xa0 for x in raw) if eci in (3, 11, 13) else True
        try:
            want = raw.decode(codec) if printable else None
        except Exception:
            want = None
        if want is None:
            if not r.startswith('err'):
                return {'call': l, 'observed': r, 'expected': 'err CharsetError (byte not defined/printable in the character set of ECI %d)' % eci}
        else:
            if r.strip() != ('ok ' + want.encode('utf-8').hex()).strip():
                return {'call': l, 'observed': r, 'expected': 'ok %s (%r per Python codec %s)' % (want.encode('utf-8').hex(), want, codec)}
    return None


def str_rt_search(binary, budget_s):
    """DataMatrix::encode_str -> data codewords -> decode_str must give the string back (C14)"""
    notable = [0x00, 0x1d, 0x20, 0x41, 0x7e, 0x7f, 0x80, 0x9f, 0xa0, 0xa4, 0xb5, 0xd7, 0xe9, 0xf7, 0xff, 0x100, 0x152, 0x3bc, 0x20ac, 0x2028,
               0xd7ff, 0xe000, 0xfeff, 0xfffd, 0xffff, 0x10000, 0x1f600, 0x10ffff]
    H5, H6, T = isoref.HEAD05.decode(), isoref.HEAD06.decode(), isoref.TRAIL.decode()
    strs = []
    for c in notable:
        ch = chr(c)
        for t in (ch, ch + 'A', 'A' + ch, 'ab' + ch + 'cd', ch + ch, ch + '12', H5 + ch + T, H6 + ch + 'x' + T):
            strs.append(t)
    for a in (0xe9, 0x20ac, 0xfeff):
        for b in (0xb5, 0x152, 0xfeff):
            strs.append(chr(a) + 'x' + chr(b))
    strs += ['', 'Hello', 'A' * 50, '\u00e9' * 40, '\u20ac' * 20]
    lines = ['encode_str default ' + hx(t.encode('utf-8')) for t in strs]
    res = run_lines(binary, lines)
    dl, dm = [], []
    for l, t, r in zip(lines, strs, res):
        if r.startswith('panic'):
            return {'call': l, 'observed': r, 'expected': 'a value or an error (never a panic)'}
        if r.startswith('ok'):
            cw = r.split()[2] if len(r.split()) > 2 else ''
            dl.append('decode_str ' + (cw or '-'))
            dm.append((l, t))
    res = run_lines(binary, dl)
    for l2, (l, t), r in zip(dl, dm, res):
        want = 'ok ' + t.encode('utf-8').hex()
        if r.strip() != want.strip():
            return {'call': l2, 'observed': r, 'expected': '%s  (the string given to `%s`, whose data codewords these are)' % (want, l[:200])}
    return None


def plan_search(binary, budget_s):
    """data::encodation_plan (C18, the decided clauses): only enabled modes, positions within the input, never increasing,
    ending at 0; and every latch codeword of the encoder's output is requested by the plan, in order"""
    rng = random.Random(5)
    LATCH = {230: 'C40', 231: 'Base256', 238: 'X12', 239: 'Text', 240: 'Edifact'}
    lines, meta = [], []
    t0 = time.time()
    for data in rt_inputs(rng):
        if len(data) > 60:
            continue
        for ms in MODESETS:
            lines.append('plan default %s %s' % (ms, hx(data)))
            meta.append((data, ms))
    res = run_lines(binary, lines, timeout=max(60, budget_s * 3))
    for l, (data, ms), r in zip(lines, meta, res):
        if r.startswith('panic'):
            return {'call': l, 'observed': r, 'expected': 'a plan or None (never a panic)'}
        if not r.startswith('ok '):
            continue
        parts = r.split()
        plan = [(int(x.split(':')[0]), x.split(':')[1]) for x in parts[1].split(',')] if parts[1] and ':' in parts[1] else []
        enabled = None if ms == 'all' else set(ms.split(','))
        pos = [n for n, _ in plan]
        bad = None
        if not plan or pos[-1] != 0:
            bad = 'the last entry must be at 0 characters left'
        elif any(n > len(data) for n in pos):
            bad = 'positions within the input (%d characters)' % len(data)
        elif any(pos[i] < pos[i + 1] for i in range(len(pos) - 1)):
            bad = 'positions never increase'
        elif enabled is not None and any(m not in enabled for _, m in plan):
            bad = 'only the enabled modes ' + ms
        if bad is None and parts[2].startswith('cw=') and not parts[2].startswith('cw=err'):
            cw = bytes.fromhex(parts[2][3:]) if len(parts[2]) > 3 else b''
            if isoref.iso_decode(cw) is not None:
                order = [{'c40': 'C40', 'b256': 'Base256', 'x12': 'X12', 'text': 'Text', 'edifact': 'Edifact'}[m] for m in isoref.LAST_ORDER]
                want = [m for _, m in plan if m != 'Ascii']
                # subsequence test
                it = iter(want)
                if not all(any(x == w for w in it) for x in order):
                    bad = 'the latches of the output %s are requested by the plan, in order' % order
        if bad:
            return {'call': l, 'observed': r, 'expected': bad}
    return None


def perf_search(binary, budget_s):
    """planning work (C19): inputs of 240 characters made of alternating runs of the character classes must be encoded in well
    under 10 s (the unchanged tree needs about 20 ms each); a call that does not finish in 10 s is the witness"""
    classes = [b'abcxyz', b'ABCXYZ', b'012789', b' ', b'\xe1\xfa', b'_^', b'*>\r']
    inputs = []
    for k in (1, 2, 3, 6):
        for i, a in enumerate(classes):
            for j, b in enumerate(classes):
                if i == j:
                    continue
                unit = bytes(a[n % len(a)] for n in range(k)) + bytes(b[n % len(b)] for n in range(k))
                inputs.append((unit * (240 // len(unit) + 1))[:240])
                for c in (classes[(j + 1) % 7], classes[(j + 3) % 7]):
                    unit3 = unit + bytes(c[n % len(c)] for n in range(k))
                    inputs.append((unit3 * (240 // len(unit3) + 1))[:240])
    lines = ['rt default all 1 0 ' + hx(d) for d in inputs]
    # restricted mode sets as well (pruning has to hold whatever the mode set): a sample of the inputs for each set; a refusal
    # (input not encodable with these modes) is an answer, only a call that does not come back counts
    for ms in ('Ascii,Base256', 'Ascii,C40', 'Text,Base256', 'Ascii,Text,C40', 'C40,Text,X12,Edifact,Base256'):
        lines += ['rt default %s 1 0 %s' % (ms, hx(d)) for d in inputs[::9]]
    t0 = time.time()
    for i in range(0, len(lines), 40):
        if time.time() - t0 > budget_s:
            return None
        chunk = lines[i:i + 40]
        try:
            run_lines(binary, chunk, timeout=20)
            continue
        except subprocess.TimeoutExpired:
            pass
        for l in chunk:
            try:
                run_lines(binary, [l], timeout=10)
            except subprocess.TimeoutExpired:
                return {'call': l, 'observed': 'timeout: the call did not finish in 10 s', 'expected': 'a result within 10 s (planning is linear in the input length: about 20 ms for these 240 characters on the unchanged tree)'}
    return None


SEARCH = {
    'V-PRUNE': [('perf', 60)],
    'V-DEC': [('dec', 40)],
    'V-ECI': [('eci', 30), ('str_rt', 30), ('dec_str', 30)],
    'V-STR': [('str_rt', 30)],
    'V-ENC': [('rt', 75)],
    'V-ASCII': [('rt', 75)],
    'V-X12': [('rt', 75)],
    'V-B256': [('rt', 75)],
    'V-DRV': [('rt', 75)],
    'V-OPT': [('plan', 40), ('rt', 75), ('perf', 40)],
    'V-PLAN': [('rt', 75)],
    'V-ADDSW': [('rt', 75), ('perf', 40)],
    'V-C40': [('rt', 75)],
    'V-EDI': [('rt', 75)],
    'V-TOP': [('rt', 75), ('str_rt', 30)],
}
_CACHE = {}


def find_witness(verif, unit):
    plan = SEARCH.get(unit)
    if not plan:
        return None
    b = replay_bin(verif)
    if b is None:
        return None
    for kind, budget in plan:
        if kind in _CACHE:
            if _CACHE[kind]:
                return dict(_CACHE[kind])
            continue
        try:
            if kind == 'dec':
                w = dec_search(b, budget)
            elif kind == 'dec_str':
                w = dec_search(b, budget, strdec=True)
            elif kind == 'rt':
                w = rt_search(b, budget)
            elif kind == 'eci':
                w = eci_search(b, budget)
            elif kind == 'plan':
                w = plan_search(b, budget)
            elif kind == 'perf':
                w = perf_search(b, budget)
            elif kind == 'str_rt':
                w = str_rt_search(b, budget)
            else:
                w = None
        except Exception as e:   # a crashed search is not a verdict
            w = None
        _CACHE[kind] = w
        if w:
            w['search'] = kind
            return w
    return None


def write_replay(verif, repo, pid, r, f, search=True):
    os.makedirs(os.path.join(verif, 'work', 'replays'), exist_ok=True)
    h = hashlib.sha1((f['obligation'] + f.get('detail', '')).encode()).hexdigest()[:10]
    path = os.path.join(verif, 'work', 'replays', '%s-%s-%s.json' % (pid, r.name, h))
    witness = None
    if f.get('playback'):
        witness = {'kind': 'kani-concrete-playback', 'harness': f.get('harness'), 'values': f['playback'],
                   'how': 'concrete values for the kani::any() calls of the harness, in order (cargo kani --concrete-playback=print)'}
    elif search:
        if not hasattr(r, '_witness_cache'):
            r._witness_cache = find_witness(verif, r.name)
        if r._witness_cache:
            witness = dict(r._witness_cache)
            witness['kind'] = 'public-api-call'
            witness['how'] = 'line for the replay tool (replay/): ./check replay <this file>'
    doc = {
        'property': pid,
        'unit': r.name,
        'engine': r.engine,
        'obligation': f['obligation'],
        'detail': f.get('detail', ''),
        'verifier_message': f['message'],
        'verifier_output': f.get('rendered', ''),
        'source': f.get('src'),
        'witness': witness,
        'note': getattr(r, 'reason', ''),
        'how_to_replay': './check replay ' + path,
    }
    with open(path, 'w') as fh:
        json.dump(doc, fh, indent=1)
    return path, witness is not None


def replay_file(verif, repo, path):
    doc = json.load(open(path))
    print('property   :', doc['property'])
    print('obligation :', doc['obligation'])
    print('detail     :', doc.get('detail'))
    print('source     :', doc.get('source'))
    print(doc.get('verifier_output', ''))
    w = doc.get('witness')
    if not w:
        print('no concrete witness recorded (no-failing-input-found)')
        return 0
    if w.get('kind') == 'public-api-call':
        b = replay_bin(verif)
        if b is None:
            print('replay tool does not build against /repo')
            return 2
        try:
            out = run_lines(b, [w['call']], timeout=30)
        except subprocess.TimeoutExpired:
            out = ['timeout: the call did not finish in 30 s']
        print('call       :', w['call'])
        print('now        :', out[0])
        print('recorded   :', w['observed'])
        print('expected   :', w['expected'])
        return 0
    print('witness    :', json.dumps(w, indent=1))
    return 0
