"""Replay files and witness search."""
import hashlib
import json
import os


def write_replay(verif, repo, pid, r, f):
    os.makedirs(os.path.join(verif, 'work', 'replays'), exist_ok=True)
    h = hashlib.sha1((f['obligation'] + f.get('detail', '')).encode()).hexdigest()[:10]
    path = os.path.join(verif, 'work', 'replays', '%s-%s-%s.json' % (pid, r.name, h))
    doc = {
        'property': pid,
        'unit': r.name,
        'engine': r.engine,
        'obligation': f['obligation'],
        'detail': f.get('detail', ''),
        'verifier_message': f['message'],
        'verifier_output': f.get('rendered', ''),
        'source': f.get('src'),
        'witness': None,
        'how_to_replay': './check replay <this file>',
    }
    found = False
    with open(path, 'w') as fh:
        json.dump(doc, fh, indent=1)
    return path, found


def replay_file(verif, repo, path):
    doc = json.load(open(path))
    print('property   :', doc['property'])
    print('obligation :', doc['obligation'])
    print('detail     :', doc.get('detail'))
    print('source     :', doc.get('source'))
    print(doc.get('verifier_output', ''))
    if not doc.get('witness'):
        print('no concrete witness recorded (no-failing-input-found)')
        return 0
    return 0
