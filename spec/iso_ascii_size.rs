// number of codewords the ASCII scheme needs for s (greedy digit pairs, upper shift for >= 128), 5.2.3
pub open spec fn is_digit(b: u8) -> bool { 48 <= b <= 57 }
pub open spec fn two_digits(s: Seq<u8>) -> bool { s.len() >= 2 && is_digit(s[0]) && is_digit(s[1]) }
pub open spec fn ascii_size(s: Seq<u8>) -> int
    decreases s.len()
{
    if s.len() == 0 { 0 }
    else if two_digits(s) { 1 + ascii_size(s.skip(2)) }
    else if s[0] <= 127 { 1 + ascii_size(s.skip(1)) }
    else { 2 + ascii_size(s.skip(1)) }
}
pub proof fn lemma_ascii_size_bound(s: Seq<u8>)
    ensures 0 <= ascii_size(s) <= 2 * s.len(), s.len() > 0 ==> ascii_size(s) >= 1,
    decreases s.len()
{
    if s.len() == 0 { } else if two_digits(s) { lemma_ascii_size_bound(s.skip(2)); } else { lemma_ascii_size_bound(s.skip(1)); }
}

pub proof fn lemma_ascii_size_le_twice()
    ensures forall|s: Seq<u8>| 0 <= #[trigger] ascii_size(s) <= 2 * s.len(),
{
    assert forall|s: Seq<u8>| 0 <= #[trigger] ascii_size(s) <= 2 * s.len() by { lemma_ascii_size_bound(s); }
}
