// ===========================================================================
// Specification library: the data-codeword decoding function of ISO/IEC 16022
// (5.2 "Encodation schemes"), transcribed from the standard's text and tables.
// Nothing here is derived from /repo; the functions of /repo are proved to
// agree with it wherever it accepts a stream.
// ===========================================================================

pub assume_specification<'a, T: Copy>[core::option::Option::<&'a T>::copied](o: Option<&'a T>) -> (r: Option<T>)
    ensures r == (match o { Some(x) => Some(*x), None => None });

// ---- 5.2.3 ASCII encodation ----
pub struct AsciiOut { pub rest: Seq<u8>, pub consumed: int, pub mode: EncodationType, pub out: Seq<u8>, pub ecis: Seq<(usize, u32)> }

// Annex B.1: 253-state randomising algorithm (un-randomise), pos is 1-based
pub open spec fn derand253(ch: u8, pos: int) -> int {
    let pr = ((149 * pos) % 253) + 1;
    let t = ch as int - pr;
    if t >= 1 { t } else { t + 254 }
}
pub open spec fn pads_ok(s: Seq<u8>, pos: int) -> bool
    decreases s.len()
{
    if s.len() == 0 { true } else { derand253(s[0], pos) == 129 && pads_ok(s.skip(1), pos + 1) }
}
// 5.2.4.7 / ECI annex: the 1, 2 and 3 codeword forms of an ECI designator
pub open spec fn spec_eci(s: Seq<u8>) -> Option<(int, u32)> {
    if s.len() < 1 { None } else {
        let c1 = s[0] as int;
        if 1 <= c1 <= 127 { Some((1int, (c1 - 1) as u32)) }
        else if 128 <= c1 <= 191 {
            if s.len() < 2 || !(1 <= s[1] <= 254) { None } else { Some((2int, ((c1 - 128) * 254 + (s[1] - 1) + 127) as u32)) }
        } else if 192 <= c1 <= 207 {
            if s.len() < 3 || !(1 <= s[1] <= 254) || !(1 <= s[2] <= 254) { None }
            else { Some((3int, ((c1 - 192) * 64516 + (s[1] - 1) * 254 + (s[2] - 1) + 16383) as u32)) }
        } else { None }
    }
}
// pos = 1-based absolute position of s[0] in the symbol
pub open spec fn iso_ascii(s: Seq<u8>, pos: int, upper: bool, out: Seq<u8>, ecis: Seq<(usize, u32)>) -> Option<AsciiOut>
    decreases s.len()
{
    if s.len() == 0 {
        if upper { None } else { Some(AsciiOut { rest: s, consumed: pos, mode: EncodationType::Ascii, out, ecis }) }
    } else {
        let ch = s[0];
        let r = s.skip(1);
        if upper && !(1 <= ch <= 128) { None }
        else if 1 <= ch <= 128 { iso_ascii(r, pos + 1, false, out.push(if upper { (ch + 127) as u8 } else { (ch - 1) as u8 }), ecis) }
        else if ch == 129 { if pads_ok(r, pos + 1) { Some(AsciiOut { rest: Seq::empty(), consumed: pos + s.len(), mode: EncodationType::Ascii, out, ecis }) } else { None } }
        else if 130 <= ch <= 229 { iso_ascii(r, pos + 1, upper, out.push((48 + (ch - 130) / 10) as u8).push((48 + (ch - 130) % 10) as u8), ecis) }
        else if ch == 230 { Some(AsciiOut { rest: r, consumed: pos + 1, mode: EncodationType::C40, out, ecis }) }
        else if ch == 231 { Some(AsciiOut { rest: r, consumed: pos + 1, mode: EncodationType::Base256, out, ecis }) }
        else if ch == 232 { iso_ascii(r, pos + 1, upper, out.push(29), ecis) }
        else if ch == 235 { iso_ascii(r, pos + 1, true, out, ecis) }
        else if ch == 238 { Some(AsciiOut { rest: r, consumed: pos + 1, mode: EncodationType::X12, out, ecis }) }
        else if ch == 239 { Some(AsciiOut { rest: r, consumed: pos + 1, mode: EncodationType::Text, out, ecis }) }
        else if ch == 240 { Some(AsciiOut { rest: r, consumed: pos + 1, mode: EncodationType::Edifact, out, ecis }) }
        else if ch == 241 {
            match spec_eci(r) {
                Some((k, e)) => iso_ascii(r.skip(k), pos + 1 + k, upper, out, ecis.push((out.len() as usize, e))),
                None => None,
            }
        }
        else { None }
    }
}

// ---- 5.2.9 Base 256 ----
// Annex B.2: 255-state randomising algorithm (un-randomise)
pub open spec fn derand255(ch: u8, pos: int) -> u8 {
    let pr = ((149 * pos) % 255) + 1;
    let t = ch as int - pr;
    if t >= 0 { t as u8 } else { (t + 256) as u8 }
}
pub open spec fn b256_copy(s: Seq<u8>, pos: int, n: nat, out: Seq<u8>) -> Option<(Seq<u8>, Seq<u8>)>
    decreases n
{
    if n == 0 { Some((s, out)) }
    else if s.len() == 0 { None }
    else { b256_copy(s.skip(1), pos + 1, (n - 1) as nat, out.push(derand255(s[0], pos))) }
}
pub open spec fn iso_b256(s: Seq<u8>, pos: int, out: Seq<u8>) -> Option<(Seq<u8>, Seq<u8>)> {
    if s.len() == 0 { None } else {
        let d1 = derand255(s[0], pos) as int;
        if d1 == 0 { b256_copy(s.skip(1), pos + 1, (s.len() - 1) as nat, out) }
        else if d1 < 250 { b256_copy(s.skip(1), pos + 1, d1 as nat, out) }
        else if s.len() < 2 { None }
        else { b256_copy(s.skip(2), pos + 2, (250 * (d1 - 249) + derand255(s[1], pos + 1) as int) as nat, out) }
    }
}

// ---- 5.2.8 EDIFACT ----
pub open spec fn edi_char(v: int) -> u8 { if v >= 32 { v as u8 } else { (v + 64) as u8 } }
pub open spec fn iso_edifact(s: Seq<u8>, out: Seq<u8>) -> (Seq<u8>, Seq<u8>)
    decreases s.len()
{
    if s.len() <= 2 { (s, out) } else {
        let a = s[0] as int; let b = s[1] as int; let c = s[2] as int;
        let v1 = a / 4; let v2 = (a % 4) * 16 + b / 16; let v3 = (b % 16) * 4 + c / 64; let v4 = c % 64;
        if v1 == 31 { (s.skip(1), out) }
        else if v2 == 31 { (s.skip(2), out.push(edi_char(v1))) }
        else if v3 == 31 { (s.skip(3), out.push(edi_char(v1)).push(edi_char(v2))) }
        else if v4 == 31 { (s.skip(3), out.push(edi_char(v1)).push(edi_char(v2)).push(edi_char(v3))) }
        else { iso_edifact(s.skip(3), out.push(edi_char(v1)).push(edi_char(v2)).push(edi_char(v3)).push(edi_char(v4))) }
    }
}

// ---- 5.2.5 C40 / 5.2.6 Text ----
pub struct CState { pub shift: int, pub upper: bool, pub out: Seq<u8> }
// Table 6: Shift 2 set, values 0..26
pub open spec fn sh2() -> Seq<u8> { seq![33u8,34,35,36,37,38,39,40,41,42,43,44,45,46,47,58,59,60,61,62,63,64,91,92,93,94,95] }
// Table 6, basic set values 3..39 (C40: space, digits, upper case; Text: space, digits, lower case)
pub open spec fn c40_base() -> Seq<u8> { seq![32u8,48,49,50,51,52,53,54,55,56,57,65,66,67,68,69,70,71,72,73,74,75,76,77,78,79,80,81,82,83,84,85,86,87,88,89,90] }
pub open spec fn text_base() -> Seq<u8> { seq![32u8,48,49,50,51,52,53,54,55,56,57,97,98,99,100,101,102,103,104,105,106,107,108,109,110,111,112,113,114,115,116,117,118,119,120,121,122] }
// Shift 3 set, values 0..31 (C40: ` a-z { | } ~ DEL; Text: ` A-Z { | } ~ DEL)
pub open spec fn c40_sh3() -> Seq<u8> { seq![96u8,97,98,99,100,101,102,103,104,105,106,107,108,109,110,111,112,113,114,115,116,117,118,119,120,121,122,123,124,125,126,127] }
pub open spec fn text_sh3() -> Seq<u8> { seq![96u8,65,66,67,68,69,70,71,72,73,74,75,76,77,78,79,80,81,82,83,84,85,86,87,88,89,90,123,124,125,126,127] }

pub open spec fn emit(st: CState, t: u8) -> CState { CState { shift: 0, upper: false, out: st.out.push(if st.upper { (t + 128) as u8 } else { t }) } }
pub open spec fn c40_val(st: CState, ch: u8, base: Seq<u8>, sh3: Seq<u8>) -> Option<CState> {
    if st.shift == 0 {
        if ch <= 2 { Some(CState { shift: ch as int + 1, upper: st.upper, out: st.out }) }
        else if ch <= 39 { Some(emit(st, base[ch as int - 3])) }
        else { None }
    } else if st.shift == 1 {
        if ch <= 31 { Some(emit(st, ch)) } else { None }
    } else if st.shift == 2 {
        if ch <= 26 { Some(emit(st, sh2()[ch as int])) }
        else if ch == 30 { Some(CState { shift: 0, upper: true, out: st.out }) }
        else { None }
    } else {
        if ch <= 31 { Some(emit(st, sh3[ch as int])) } else { None }
    }
}
// state after the first k of the three values of one codeword pair
pub open spec fn c40_upto(st: CState, v: Seq<u8>, k: int, base: Seq<u8>, sh3: Seq<u8>) -> Option<CState> {
    if k <= 0 { Some(st) } else {
        match c40_val(st, v[0], base, sh3) {
            None => None,
            Some(s1) => if k == 1 { Some(s1) } else {
                match c40_val(s1, v[1], base, sh3) {
                    None => None,
                    Some(s2) => if k == 2 { Some(s2) } else { c40_val(s2, v[2], base, sh3) }
                }
            }
        }
    }
}
pub open spec fn unpack(a: u8, b: u8) -> (int, int, int) {
    let v = a as int * 256 + b as int - 1;
    (v / 1600, (v % 1600) / 40, v % 40)
}
pub open spec fn iso_c40(s: Seq<u8>, st: CState, base: Seq<u8>, sh3: Seq<u8>) -> Option<(Seq<u8>, Seq<u8>)>
    decreases s.len()
{
    if s.len() <= 1 {
        Some((if s.len() == 1 && s[0] == 254 { Seq::<u8>::empty() } else { s }, st.out))
    } else if s[0] == 254 {
        Some((s.skip(1), st.out))
    } else if s[0] == 0 && s[1] == 0 {
        None
    } else {
        let (c1, c2, c3) = unpack(s[0], s[1]);
        match c40_upto(st, seq![c1 as u8, c2 as u8, c3 as u8], 3, base, sh3) {
            Some(st3) => iso_c40(s.skip(2), st3, base, sh3),
            None => None,
        }
    }
}

// ---- 5.2.7 ANSI X12 ----
pub open spec fn x12_val(v: int) -> Option<u8> {
    if v == 0 { Some(13u8) } else if v == 1 { Some(42u8) } else if v == 2 { Some(62u8) } else if v == 3 { Some(32u8) }
    else if 4 <= v <= 13 { Some((48 + (v - 4)) as u8) }
    else if 14 <= v <= 39 { Some((65 + (v - 14)) as u8) }
    else { None }
}
pub open spec fn iso_x12(s: Seq<u8>, out: Seq<u8>) -> Option<(Seq<u8>, Seq<u8>)>
    decreases s.len()
{
    if s.len() <= 1 {
        Some((if s.len() == 1 && s[0] == 254 { Seq::<u8>::empty() } else { s }, out))
    } else if s[0] == 254 {
        Some((s.skip(1), out))
    } else if s[0] == 0 && s[1] == 0 {
        None
    } else {
        let (c1, c2, c3) = unpack(s[0], s[1]);
        match (x12_val(c1), x12_val(c2), x12_val(c3)) {
            (Some(a), Some(b), Some(c)) => iso_x12(s.skip(2), out.push(a).push(b).push(c)),
            _ => None,
        }
    }
}

// ---- the mode loop of 5.2 ----
pub struct Decoded { pub out: Seq<u8>, pub ecis: Seq<(usize, u32)> }

// result of one mode run: (rest, out, ecis, next mode)
pub open spec fn iso_run(s: Seq<u8>, pos: int, mode: EncodationType, out: Seq<u8>, ecis: Seq<(usize, u32)>) -> Option<(Seq<u8>, Seq<u8>, Seq<(usize, u32)>, EncodationType)> {
    match mode {
        EncodationType::Ascii => match iso_ascii(s, pos, false, out, ecis) { Some(a) => Some((a.rest, a.out, a.ecis, a.mode)), None => None },
        EncodationType::Base256 => match iso_b256(s, pos, out) { Some(p) => Some((p.0, p.1, ecis, EncodationType::Ascii)), None => None },
        EncodationType::X12 => match iso_x12(s, out) { Some(p) => Some((p.0, p.1, ecis, EncodationType::Ascii)), None => None },
        EncodationType::Edifact => { let p = iso_edifact(s, out); Some((p.0, p.1, ecis, EncodationType::Ascii)) },
        EncodationType::C40 => match iso_c40(s, CState { shift: 0, upper: false, out }, c40_base(), c40_sh3()) { Some(p) => Some((p.0, p.1, ecis, EncodationType::Ascii)), None => None },
        EncodationType::Text => match iso_c40(s, CState { shift: 0, upper: false, out }, text_base(), text_sh3()) { Some(p) => Some((p.0, p.1, ecis, EncodationType::Ascii)), None => None },
    }
}

#[verifier::opaque]
pub open spec fn iso_stream(s: Seq<u8>, pos: int, mode: EncodationType, out: Seq<u8>, ecis: Seq<(usize, u32)>) -> Option<Decoded>
    decreases s.len(), (if mode == EncodationType::Ascii { 0int } else { 1int })
{
    if s.len() == 0 { Some(Decoded { out, ecis }) } else {
        match iso_run(s, pos, mode, out, ecis) {
            None => None,
            Some((rest, out2, ecis2, mode2)) =>
                // every run consumes, or hands over to ASCII which consumes (a fact of the
                // run functions; the guard makes the recursion evidently well-founded)
                if rest.len() < s.len() || (rest.len() == s.len() && mode != EncodationType::Ascii && mode2 == EncodationType::Ascii) {
                    iso_stream(rest, pos + (s.len() - rest.len()), mode2, out2, ecis2)
                } else { None }
        }
    }
}

pub proof fn lemma_stream_unfold(s: Seq<u8>, pos: int, mode: EncodationType, out: Seq<u8>, ecis: Seq<(usize, u32)>)
    ensures iso_stream(s, pos, mode, out, ecis) == (
        if s.len() == 0 { Some(Decoded { out, ecis }) } else {
            match iso_run(s, pos, mode, out, ecis) {
                None => None,
                Some((rest, out2, ecis2, mode2)) =>
                    if rest.len() < s.len() || (rest.len() == s.len() && mode != EncodationType::Ascii && mode2 == EncodationType::Ascii) {
                        iso_stream(rest, pos + (s.len() - rest.len()), mode2, out2, ecis2)
                    } else { None }
            }
        })
{
    reveal(iso_stream);
}

// a lone 254 in ASCII mode is not a codeword of the ASCII scheme
pub proof fn lemma_254_none()
    ensures forall|s: Seq<u8>, pos: int, out: Seq<u8>, ecis: Seq<(usize, u32)>|
        s.len() == 1 && s[0] == 254 ==> (#[trigger] iso_stream(s, pos, EncodationType::Ascii, out, ecis)) is None
{
    assert forall|s: Seq<u8>, pos: int, out: Seq<u8>, ecis: Seq<(usize, u32)>|
        s.len() == 1 && s[0] == 254 implies (#[trigger] iso_stream(s, pos, EncodationType::Ascii, out, ecis)) is None by {
        lemma_stream_unfold(s, pos, EncodationType::Ascii, out, ecis);
    }
}

// 5.2.4.9 / 5.2.4.10 Macro 05 / Macro 06 in first position; FNC1 in first position (GS1)
pub open spec fn head05() -> Seq<u8> { seq![91u8, 41, 62, 30, 48, 53, 29] }   // [)> RS 0 5 GS
pub open spec fn head06() -> Seq<u8> { seq![91u8, 41, 62, 30, 48, 54, 29] }   // [)> RS 0 6 GS
pub open spec fn trail() -> Seq<u8> { seq![30u8, 4] }                          // RS EOT

// `strdec` = the string decoder's view: macro header/trailer are tagged UTF-8 (ECI 26)
pub open spec fn iso_decode(cw: Seq<u8>, strdec: bool) -> Option<Decoded> {
    let is05 = cw.len() > 0 && cw[0] == 236;
    let is06 = cw.len() > 0 && cw[0] == 237;
    let mac = is05 || is06;
    let s1 = if mac { cw.skip(1) } else { cw };
    let out1 = if is05 { head05() } else if is06 { head06() } else { Seq::<u8>::empty() };
    let ecis1 = if strdec && mac { seq![(0usize, 26u32), (7usize, 0u32)] } else { Seq::<(usize, u32)>::empty() };
    let fnc1 = s1.len() > 0 && s1[0] == 232;
    let s2 = if fnc1 { s1.skip(1) } else { s1 };
    let pos2 = 1 + (if mac { 1int } else { 0int }) + (if fnc1 { 1int } else { 0int });
    match iso_stream(s2, pos2, EncodationType::Ascii, out1, ecis1) {
        None => None,
        Some(d) => if mac {
            Some(Decoded { out: d.out + trail(), ecis: if d.ecis.len() > 0 { d.ecis.push((d.out.len() as usize, 26u32)) } else { d.ecis } })
        } else { Some(d) }
    }
}
