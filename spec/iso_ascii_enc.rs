// ---- lemmas about the ASCII scheme of spec/iso_decode.rs used on the encoder side ----
// codewords that never end an ASCII run: data values, digit pairs, upper shift
pub open spec fn plain(a: Seq<u8>) -> bool { forall|i: int| 0 <= i < a.len() ==> (1 <= #[trigger] a[i] <= 128 || 130 <= a[i] <= 229 || a[i] == 235) }
pub open spec fn done(out: Seq<u8>, consumed: int) -> Option<AsciiOut> {
    Some(AsciiOut { rest: Seq::<u8>::empty(), consumed, mode: EncodationType::Ascii, out, ecis: Seq::<(usize, u32)>::empty() })
}
pub proof fn lemma_step0(pos: int, out: Seq<u8>)
    ensures iso_ascii(Seq::<u8>::empty(), pos, false, out, Seq::empty()) == done(out, pos),
{ }
pub proof fn lemma_step1(x: u8, pos: int, out: Seq<u8>)
    requires 1 <= x <= 128,
    ensures iso_ascii(seq![x], pos, false, out, Seq::empty()) == done(out.push((x - 1) as u8), pos + 1),
{
    reveal_with_fuel(iso_ascii, 2);
    assert(seq![x].skip(1) =~= Seq::<u8>::empty());
}
pub proof fn lemma_step_digits(x: u8, pos: int, out: Seq<u8>)
    requires 130 <= x <= 229,
    ensures iso_ascii(seq![x], pos, false, out, Seq::empty()) == done(out.push((48 + (x - 130) / 10) as u8).push((48 + (x - 130) % 10) as u8), pos + 1),
{
    reveal_with_fuel(iso_ascii, 2);
    assert(seq![x].skip(1) =~= Seq::<u8>::empty());
}
pub proof fn lemma_step_upper(y: u8, pos: int, out: Seq<u8>)
    requires 1 <= y <= 128,
    ensures iso_ascii(seq![235u8, y], pos, false, out, Seq::empty()) == done(out.push((y + 127) as u8), pos + 2),
{
    reveal_with_fuel(iso_ascii, 3);
    assert(seq![235u8, y].skip(1) =~= seq![y]);
    assert(seq![y].skip(1) =~= Seq::<u8>::empty());
}
// decoding a plain prefix and then the rest = decoding the concatenation
pub proof fn lemma_ascii_append(a: Seq<u8>, b: Seq<u8>, pos: int, up: bool, o0: Seq<u8>, oa: Seq<u8>)
    requires plain(a), iso_ascii(a, pos, up, o0, Seq::empty()) == done(oa, pos + a.len()),
    ensures iso_ascii(a + b, pos, up, o0, Seq::empty()) == iso_ascii(b, pos + a.len(), false, oa, Seq::empty()),
    decreases a.len()
{
    if a.len() == 0 {
        assert(a + b =~= b);
    } else {
        assert((a + b).skip(1) =~= a.skip(1) + b);
        assert((a + b)[0] == a[0]);
        let ch = a[0];
        assert(plain(a.skip(1))) by { assert forall|i: int| 0 <= i < a.skip(1).len() implies (1 <= #[trigger] a.skip(1)[i] <= 128 || 130 <= a.skip(1)[i] <= 229 || a.skip(1)[i] == 235) by { assert(a.skip(1)[i] == a[i + 1]); } }
        if up && !(1 <= ch <= 128) {
        } else if 1 <= ch <= 128 {
            lemma_ascii_append(a.skip(1), b, pos + 1, false, o0.push(if up { (ch + 127) as u8 } else { (ch - 1) as u8 }), oa);
        } else if 130 <= ch <= 229 {
            lemma_ascii_append(a.skip(1), b, pos + 1, up, o0.push((48 + (ch - 130) / 10) as u8).push((48 + (ch - 130) % 10) as u8), oa);
        } else {
            lemma_ascii_append(a.skip(1), b, pos + 1, true, o0, oa);
        }
    }
}
// number of codewords the ASCII scheme needs for s (greedy digit pairs, upper shift for >= 128)
pub open spec fn ascii_size(s: Seq<u8>) -> int
    decreases s.len()
{
    if s.len() == 0 { 0 }
    else if two_digits(s) { 1 + ascii_size(s.skip(2)) }
    else if s[0] <= 127 { 1 + ascii_size(s.skip(1)) }
    else { 2 + ascii_size(s.skip(1)) }
}
pub proof fn lemma_ascii_size_single()
    ensures forall|s: Seq<u8>| s.len() == 1 ==> #[trigger] ascii_size(s) == (if s[0] <= 127 { 1int } else { 2int }),
{
    assert forall|s: Seq<u8>| s.len() == 1 implies #[trigger] ascii_size(s) == (if s[0] <= 127 { 1int } else { 2int }) by {
        assert(s.skip(1).len() == 0);
        assert(ascii_size(s.skip(1)) == 0);
    }
}
