// ===========================================================================
// ISO/IEC 16022:2006 Table 7 (24 square + 6 rectangular ECC 200 symbols) and
// ISO/IEC 21471:2020 Table 1 (18 DMRE rectangles), transcribed.  Columns: symbol
// rows x cols (incl. finder), data-region rows x cols, regions down x across, data
// codewords, error codewords per interleaved block, interleaved blocks, DMRE?
// (generated from the table literal in tools; self-check: rows = regions*(region+2),
//  region area * regions = 8*(data + ecc*blocks) (+4 for 12/16/20/24))
// ===========================================================================
pub struct IsoRow { pub rows: int, pub cols: int, pub rrows: int, pub rcols: int, pub rdown: int, pub racross: int, pub data: int, pub ecc: int, pub blocks: int, pub dmre: bool }
pub open spec fn iso_table(s: SymbolSize) -> IsoRow {
    match s {
        SymbolSize::Square10 => IsoRow { rows: 10, cols: 10, rrows: 8, rcols: 8, rdown: 1, racross: 1, data: 3, ecc: 5, blocks: 1, dmre: false },
        SymbolSize::Square12 => IsoRow { rows: 12, cols: 12, rrows: 10, rcols: 10, rdown: 1, racross: 1, data: 5, ecc: 7, blocks: 1, dmre: false },
        SymbolSize::Square14 => IsoRow { rows: 14, cols: 14, rrows: 12, rcols: 12, rdown: 1, racross: 1, data: 8, ecc: 10, blocks: 1, dmre: false },
        SymbolSize::Square16 => IsoRow { rows: 16, cols: 16, rrows: 14, rcols: 14, rdown: 1, racross: 1, data: 12, ecc: 12, blocks: 1, dmre: false },
        SymbolSize::Square18 => IsoRow { rows: 18, cols: 18, rrows: 16, rcols: 16, rdown: 1, racross: 1, data: 18, ecc: 14, blocks: 1, dmre: false },
        SymbolSize::Square20 => IsoRow { rows: 20, cols: 20, rrows: 18, rcols: 18, rdown: 1, racross: 1, data: 22, ecc: 18, blocks: 1, dmre: false },
        SymbolSize::Square22 => IsoRow { rows: 22, cols: 22, rrows: 20, rcols: 20, rdown: 1, racross: 1, data: 30, ecc: 20, blocks: 1, dmre: false },
        SymbolSize::Square24 => IsoRow { rows: 24, cols: 24, rrows: 22, rcols: 22, rdown: 1, racross: 1, data: 36, ecc: 24, blocks: 1, dmre: false },
        SymbolSize::Square26 => IsoRow { rows: 26, cols: 26, rrows: 24, rcols: 24, rdown: 1, racross: 1, data: 44, ecc: 28, blocks: 1, dmre: false },
        SymbolSize::Square32 => IsoRow { rows: 32, cols: 32, rrows: 14, rcols: 14, rdown: 2, racross: 2, data: 62, ecc: 36, blocks: 1, dmre: false },
        SymbolSize::Square36 => IsoRow { rows: 36, cols: 36, rrows: 16, rcols: 16, rdown: 2, racross: 2, data: 86, ecc: 42, blocks: 1, dmre: false },
        SymbolSize::Square40 => IsoRow { rows: 40, cols: 40, rrows: 18, rcols: 18, rdown: 2, racross: 2, data: 114, ecc: 48, blocks: 1, dmre: false },
        SymbolSize::Square44 => IsoRow { rows: 44, cols: 44, rrows: 20, rcols: 20, rdown: 2, racross: 2, data: 144, ecc: 56, blocks: 1, dmre: false },
        SymbolSize::Square48 => IsoRow { rows: 48, cols: 48, rrows: 22, rcols: 22, rdown: 2, racross: 2, data: 174, ecc: 68, blocks: 1, dmre: false },
        SymbolSize::Square52 => IsoRow { rows: 52, cols: 52, rrows: 24, rcols: 24, rdown: 2, racross: 2, data: 204, ecc: 42, blocks: 2, dmre: false },
        SymbolSize::Square64 => IsoRow { rows: 64, cols: 64, rrows: 14, rcols: 14, rdown: 4, racross: 4, data: 280, ecc: 56, blocks: 2, dmre: false },
        SymbolSize::Square72 => IsoRow { rows: 72, cols: 72, rrows: 16, rcols: 16, rdown: 4, racross: 4, data: 368, ecc: 36, blocks: 4, dmre: false },
        SymbolSize::Square80 => IsoRow { rows: 80, cols: 80, rrows: 18, rcols: 18, rdown: 4, racross: 4, data: 456, ecc: 48, blocks: 4, dmre: false },
        SymbolSize::Square88 => IsoRow { rows: 88, cols: 88, rrows: 20, rcols: 20, rdown: 4, racross: 4, data: 576, ecc: 56, blocks: 4, dmre: false },
        SymbolSize::Square96 => IsoRow { rows: 96, cols: 96, rrows: 22, rcols: 22, rdown: 4, racross: 4, data: 696, ecc: 68, blocks: 4, dmre: false },
        SymbolSize::Square104 => IsoRow { rows: 104, cols: 104, rrows: 24, rcols: 24, rdown: 4, racross: 4, data: 816, ecc: 56, blocks: 6, dmre: false },
        SymbolSize::Square120 => IsoRow { rows: 120, cols: 120, rrows: 18, rcols: 18, rdown: 6, racross: 6, data: 1050, ecc: 68, blocks: 6, dmre: false },
        SymbolSize::Square132 => IsoRow { rows: 132, cols: 132, rrows: 20, rcols: 20, rdown: 6, racross: 6, data: 1304, ecc: 62, blocks: 8, dmre: false },
        SymbolSize::Square144 => IsoRow { rows: 144, cols: 144, rrows: 22, rcols: 22, rdown: 6, racross: 6, data: 1558, ecc: 62, blocks: 10, dmre: false },
        SymbolSize::Rect8x18 => IsoRow { rows: 8, cols: 18, rrows: 6, rcols: 16, rdown: 1, racross: 1, data: 5, ecc: 7, blocks: 1, dmre: false },
        SymbolSize::Rect8x32 => IsoRow { rows: 8, cols: 32, rrows: 6, rcols: 14, rdown: 1, racross: 2, data: 10, ecc: 11, blocks: 1, dmre: false },
        SymbolSize::Rect12x26 => IsoRow { rows: 12, cols: 26, rrows: 10, rcols: 24, rdown: 1, racross: 1, data: 16, ecc: 14, blocks: 1, dmre: false },
        SymbolSize::Rect12x36 => IsoRow { rows: 12, cols: 36, rrows: 10, rcols: 16, rdown: 1, racross: 2, data: 22, ecc: 18, blocks: 1, dmre: false },
        SymbolSize::Rect16x36 => IsoRow { rows: 16, cols: 36, rrows: 14, rcols: 16, rdown: 1, racross: 2, data: 32, ecc: 24, blocks: 1, dmre: false },
        SymbolSize::Rect16x48 => IsoRow { rows: 16, cols: 48, rrows: 14, rcols: 22, rdown: 1, racross: 2, data: 49, ecc: 28, blocks: 1, dmre: false },
        SymbolSize::Rect8x48 => IsoRow { rows: 8, cols: 48, rrows: 6, rcols: 22, rdown: 1, racross: 2, data: 18, ecc: 15, blocks: 1, dmre: true },
        SymbolSize::Rect8x64 => IsoRow { rows: 8, cols: 64, rrows: 6, rcols: 14, rdown: 1, racross: 4, data: 24, ecc: 18, blocks: 1, dmre: true },
        SymbolSize::Rect8x80 => IsoRow { rows: 8, cols: 80, rrows: 6, rcols: 18, rdown: 1, racross: 4, data: 32, ecc: 22, blocks: 1, dmre: true },
        SymbolSize::Rect8x96 => IsoRow { rows: 8, cols: 96, rrows: 6, rcols: 22, rdown: 1, racross: 4, data: 38, ecc: 28, blocks: 1, dmre: true },
        SymbolSize::Rect8x120 => IsoRow { rows: 8, cols: 120, rrows: 6, rcols: 18, rdown: 1, racross: 6, data: 49, ecc: 32, blocks: 1, dmre: true },
        SymbolSize::Rect8x144 => IsoRow { rows: 8, cols: 144, rrows: 6, rcols: 22, rdown: 1, racross: 6, data: 63, ecc: 36, blocks: 1, dmre: true },
        SymbolSize::Rect12x64 => IsoRow { rows: 12, cols: 64, rrows: 10, rcols: 14, rdown: 1, racross: 4, data: 43, ecc: 27, blocks: 1, dmre: true },
        SymbolSize::Rect12x88 => IsoRow { rows: 12, cols: 88, rrows: 10, rcols: 20, rdown: 1, racross: 4, data: 64, ecc: 36, blocks: 1, dmre: true },
        SymbolSize::Rect16x64 => IsoRow { rows: 16, cols: 64, rrows: 14, rcols: 14, rdown: 1, racross: 4, data: 62, ecc: 36, blocks: 1, dmre: true },
        SymbolSize::Rect20x36 => IsoRow { rows: 20, cols: 36, rrows: 18, rcols: 16, rdown: 1, racross: 2, data: 44, ecc: 28, blocks: 1, dmre: true },
        SymbolSize::Rect20x44 => IsoRow { rows: 20, cols: 44, rrows: 18, rcols: 20, rdown: 1, racross: 2, data: 56, ecc: 34, blocks: 1, dmre: true },
        SymbolSize::Rect20x64 => IsoRow { rows: 20, cols: 64, rrows: 18, rcols: 14, rdown: 1, racross: 4, data: 84, ecc: 42, blocks: 1, dmre: true },
        SymbolSize::Rect22x48 => IsoRow { rows: 22, cols: 48, rrows: 20, rcols: 22, rdown: 1, racross: 2, data: 72, ecc: 38, blocks: 1, dmre: true },
        SymbolSize::Rect24x48 => IsoRow { rows: 24, cols: 48, rrows: 22, rcols: 22, rdown: 1, racross: 2, data: 80, ecc: 41, blocks: 1, dmre: true },
        SymbolSize::Rect24x64 => IsoRow { rows: 24, cols: 64, rrows: 22, rcols: 14, rdown: 1, racross: 4, data: 108, ecc: 46, blocks: 1, dmre: true },
        SymbolSize::Rect26x40 => IsoRow { rows: 26, cols: 40, rrows: 24, rcols: 18, rdown: 1, racross: 2, data: 70, ecc: 38, blocks: 1, dmre: true },
        SymbolSize::Rect26x48 => IsoRow { rows: 26, cols: 48, rrows: 24, rcols: 22, rdown: 1, racross: 2, data: 90, ecc: 42, blocks: 1, dmre: true },
        SymbolSize::Rect26x64 => IsoRow { rows: 26, cols: 64, rrows: 24, rcols: 14, rdown: 1, racross: 4, data: 118, ecc: 50, blocks: 1, dmre: true },
    }
}
// symbols whose mapping matrix leaves a 2x2 corner unused (fixed pattern), 5.8.1 / Annex F
pub open spec fn iso_has_corner_pad(s: SymbolSize) -> bool {
    s == SymbolSize::Square12 || s == SymbolSize::Square16 || s == SymbolSize::Square20 || s == SymbolSize::Square24
}

// oracle guard: the table is self-consistent (whole regions; mapping matrix area = 8 bits per codeword,
// plus the 2x2 corner of 12/16/20/24), evaluated arm by arm
pub open spec fn table_ok(s: SymbolSize) -> bool {
    let t = iso_table(s);
    &&& t.rows == t.rdown * (t.rrows + 2) && t.cols == t.racross * (t.rcols + 2)
    &&& (t.rdown * t.rrows) * (t.racross * t.rcols) == 8 * (t.data + t.ecc * t.blocks) + (if iso_has_corner_pad(s) { 4int } else { 0int })
    &&& 1 <= t.blocks <= 10 && 5 <= t.ecc <= 68 && t.data >= t.blocks
}
pub proof fn lemma_table_area(s: SymbolSize)
    ensures table_ok(s),
{
    match s {
        SymbolSize::Square10 => { assert(table_ok(SymbolSize::Square10)) by (compute_only); },
        SymbolSize::Square12 => { assert(table_ok(SymbolSize::Square12)) by (compute_only); },
        SymbolSize::Square14 => { assert(table_ok(SymbolSize::Square14)) by (compute_only); },
        SymbolSize::Square16 => { assert(table_ok(SymbolSize::Square16)) by (compute_only); },
        SymbolSize::Square18 => { assert(table_ok(SymbolSize::Square18)) by (compute_only); },
        SymbolSize::Square20 => { assert(table_ok(SymbolSize::Square20)) by (compute_only); },
        SymbolSize::Square22 => { assert(table_ok(SymbolSize::Square22)) by (compute_only); },
        SymbolSize::Square24 => { assert(table_ok(SymbolSize::Square24)) by (compute_only); },
        SymbolSize::Square26 => { assert(table_ok(SymbolSize::Square26)) by (compute_only); },
        SymbolSize::Square32 => { assert(table_ok(SymbolSize::Square32)) by (compute_only); },
        SymbolSize::Square36 => { assert(table_ok(SymbolSize::Square36)) by (compute_only); },
        SymbolSize::Square40 => { assert(table_ok(SymbolSize::Square40)) by (compute_only); },
        SymbolSize::Square44 => { assert(table_ok(SymbolSize::Square44)) by (compute_only); },
        SymbolSize::Square48 => { assert(table_ok(SymbolSize::Square48)) by (compute_only); },
        SymbolSize::Square52 => { assert(table_ok(SymbolSize::Square52)) by (compute_only); },
        SymbolSize::Square64 => { assert(table_ok(SymbolSize::Square64)) by (compute_only); },
        SymbolSize::Square72 => { assert(table_ok(SymbolSize::Square72)) by (compute_only); },
        SymbolSize::Square80 => { assert(table_ok(SymbolSize::Square80)) by (compute_only); },
        SymbolSize::Square88 => { assert(table_ok(SymbolSize::Square88)) by (compute_only); },
        SymbolSize::Square96 => { assert(table_ok(SymbolSize::Square96)) by (compute_only); },
        SymbolSize::Square104 => { assert(table_ok(SymbolSize::Square104)) by (compute_only); },
        SymbolSize::Square120 => { assert(table_ok(SymbolSize::Square120)) by (compute_only); },
        SymbolSize::Square132 => { assert(table_ok(SymbolSize::Square132)) by (compute_only); },
        SymbolSize::Square144 => { assert(table_ok(SymbolSize::Square144)) by (compute_only); },
        SymbolSize::Rect8x18 => { assert(table_ok(SymbolSize::Rect8x18)) by (compute_only); },
        SymbolSize::Rect8x32 => { assert(table_ok(SymbolSize::Rect8x32)) by (compute_only); },
        SymbolSize::Rect12x26 => { assert(table_ok(SymbolSize::Rect12x26)) by (compute_only); },
        SymbolSize::Rect12x36 => { assert(table_ok(SymbolSize::Rect12x36)) by (compute_only); },
        SymbolSize::Rect16x36 => { assert(table_ok(SymbolSize::Rect16x36)) by (compute_only); },
        SymbolSize::Rect16x48 => { assert(table_ok(SymbolSize::Rect16x48)) by (compute_only); },
        SymbolSize::Rect8x48 => { assert(table_ok(SymbolSize::Rect8x48)) by (compute_only); },
        SymbolSize::Rect8x64 => { assert(table_ok(SymbolSize::Rect8x64)) by (compute_only); },
        SymbolSize::Rect8x80 => { assert(table_ok(SymbolSize::Rect8x80)) by (compute_only); },
        SymbolSize::Rect8x96 => { assert(table_ok(SymbolSize::Rect8x96)) by (compute_only); },
        SymbolSize::Rect8x120 => { assert(table_ok(SymbolSize::Rect8x120)) by (compute_only); },
        SymbolSize::Rect8x144 => { assert(table_ok(SymbolSize::Rect8x144)) by (compute_only); },
        SymbolSize::Rect12x64 => { assert(table_ok(SymbolSize::Rect12x64)) by (compute_only); },
        SymbolSize::Rect12x88 => { assert(table_ok(SymbolSize::Rect12x88)) by (compute_only); },
        SymbolSize::Rect16x64 => { assert(table_ok(SymbolSize::Rect16x64)) by (compute_only); },
        SymbolSize::Rect20x36 => { assert(table_ok(SymbolSize::Rect20x36)) by (compute_only); },
        SymbolSize::Rect20x44 => { assert(table_ok(SymbolSize::Rect20x44)) by (compute_only); },
        SymbolSize::Rect20x64 => { assert(table_ok(SymbolSize::Rect20x64)) by (compute_only); },
        SymbolSize::Rect22x48 => { assert(table_ok(SymbolSize::Rect22x48)) by (compute_only); },
        SymbolSize::Rect24x48 => { assert(table_ok(SymbolSize::Rect24x48)) by (compute_only); },
        SymbolSize::Rect24x64 => { assert(table_ok(SymbolSize::Rect24x64)) by (compute_only); },
        SymbolSize::Rect26x40 => { assert(table_ok(SymbolSize::Rect26x40)) by (compute_only); },
        SymbolSize::Rect26x48 => { assert(table_ok(SymbolSize::Rect26x48)) by (compute_only); },
        SymbolSize::Rect26x64 => { assert(table_ok(SymbolSize::Rect26x64)) by (compute_only); },
    }
}
