// ---- composition lemmas: a run written as the encoder contracts say is read back by the ISO stream decoder
// (iso_stream of spec/iso_decode.rs), whatever follows it, and leaves the decoder in ASCII mode with the
// consumed characters appended.  These lemmas are about the specification only; they are what makes the
// per-run postconditions of the encoders (V-ASCII, V-X12, V-B256) statements about the whole codeword stream. ----

// generalisation of lemma_ascii_append to any start state
pub proof fn lemma_ascii_append_gen(a: Seq<u8>, b: Seq<u8>, pos: int, up: bool, o0: Seq<u8>, oa: Seq<u8>, e: Seq<(usize, u32)>)
    requires plain(a), iso_ascii(a, pos, up, o0, e) == Some(AsciiOut { rest: Seq::<u8>::empty(), consumed: pos + a.len(), mode: EncodationType::Ascii, out: oa, ecis: e }),
    ensures iso_ascii(a + b, pos, up, o0, e) == iso_ascii(b, pos + a.len(), false, oa, e),
    decreases a.len()
{
    if a.len() == 0 {
        assert(a + b =~= b);
    } else {
        assert((a + b).skip(1) =~= a.skip(1) + b);
        assert((a + b)[0] == a[0]);
        let ch = a[0];
        assert(plain(a.skip(1))) by { assert forall|i: int| 0 <= i < a.skip(1).len() implies (1 <= #[trigger] a.skip(1)[i] <= 128 || 130 <= a.skip(1)[i] <= 229 || a.skip(1)[i] == 235) by { assert(a.skip(1)[i] == a[i + 1]); } }
        if up && !(1 <= ch <= 128) {
        } else if 1 <= ch <= 128 {
            lemma_ascii_append_gen(a.skip(1), b, pos + 1, false, o0.push(if up { (ch + 127) as u8 } else { (ch - 1) as u8 }), oa, e);
        } else if 130 <= ch <= 229 {
            lemma_ascii_append_gen(a.skip(1), b, pos + 1, up, o0.push((48 + (ch - 130) / 10) as u8).push((48 + (ch - 130) % 10) as u8), oa, e);
        } else {
            lemma_ascii_append_gen(a.skip(1), b, pos + 1, true, o0, oa, e);
        }
    }
}
// a plain ASCII run decodes independently of position, output prefix and ECI list
pub proof fn lemma_ascii_run_shift(a: Seq<u8>, pos: int, up: bool, o: Seq<u8>, e: Seq<(usize, u32)>, chars: Seq<u8>, up0: bool, o0: Seq<u8>, q: int)
    requires plain(a), up == up0,
        iso_ascii(a, q, up0, o0, Seq::empty()) == Some(AsciiOut { rest: Seq::<u8>::empty(), consumed: q + a.len(), mode: EncodationType::Ascii, out: o0 + chars, ecis: Seq::<(usize, u32)>::empty() }),
    ensures iso_ascii(a, pos, up, o, e) == Some(AsciiOut { rest: Seq::<u8>::empty(), consumed: pos + a.len(), mode: EncodationType::Ascii, out: o + chars, ecis: e }),
    decreases a.len()
{
    if a.len() == 0 {
        assert(o0 + chars == o0 ==> chars =~= Seq::<u8>::empty()) by { if o0 + chars == o0 { assert((o0 + chars).len() == o0.len()); } }
        assert(o + chars =~= o);
    } else {
        let ch = a[0];
        assert(plain(a.skip(1))) by { assert forall|i: int| 0 <= i < a.skip(1).len() implies (1 <= #[trigger] a.skip(1)[i] <= 128 || 130 <= a.skip(1)[i] <= 229 || a.skip(1)[i] == 235) by { assert(a.skip(1)[i] == a[i + 1]); } }
        if up && !(1 <= ch <= 128) {
        } else if 1 <= ch <= 128 {
            let c = if up { (ch + 127) as u8 } else { (ch - 1) as u8 };
            lemma_ascii_out_prefix(a.skip(1), q + 1, false, o0.push(c));
            let rest_chars = chars.skip(1);
            assert(chars.len() >= 1 && chars[0] == c && o0.push(c) + rest_chars =~= o0 + chars) by {
                let res = iso_ascii(a.skip(1), q + 1, false, o0.push(c), Seq::empty())->Some_0.out;
                assert(res == o0 + chars);
                assert(res.take(o0.len() as int + 1) =~= o0.push(c));
                assert(res.take(o0.len() as int + 1)[o0.len() as int] == o0.push(c)[o0.len() as int]);
                assert(res.len() >= o0.len() + 1 && res[o0.len() as int] == c);
            }
            lemma_ascii_run_shift(a.skip(1), pos + 1, false, o.push(c), e, rest_chars, false, o0.push(c), q + 1);
            assert(o.push(c) + rest_chars =~= o + chars);
        } else if 130 <= ch <= 229 {
            let d1 = (48 + (ch - 130) / 10) as u8; let d2 = (48 + (ch - 130) % 10) as u8;
            lemma_ascii_out_prefix(a.skip(1), q + 1, up, o0.push(d1).push(d2));
            let rest_chars = chars.skip(2);
            assert(chars.len() >= 2 && chars[0] == d1 && chars[1] == d2 && o0.push(d1).push(d2) + rest_chars =~= o0 + chars) by {
                let res = iso_ascii(a.skip(1), q + 1, up, o0.push(d1).push(d2), Seq::empty())->Some_0.out;
                assert(res == o0 + chars);
                let w = o0.push(d1).push(d2);
                assert(res.take(o0.len() as int + 2) =~= w);
                assert(res.take(o0.len() as int + 2)[o0.len() as int] == w[o0.len() as int] && res.take(o0.len() as int + 2)[o0.len() as int + 1] == w[o0.len() as int + 1]);
                assert(res.len() >= o0.len() + 2 && res[o0.len() as int] == d1 && res[o0.len() as int + 1] == d2);
            }
            lemma_ascii_run_shift(a.skip(1), pos + 1, up, o.push(d1).push(d2), e, rest_chars, up, o0.push(d1).push(d2), q + 1);
            assert(o.push(d1).push(d2) + rest_chars =~= o + chars);
        } else {
            lemma_ascii_run_shift(a.skip(1), pos + 1, true, o, e, chars, true, o0, q + 1);
        }
    }
}
// iso_ascii only ever appends to its output
pub proof fn lemma_ascii_out_prefix(a: Seq<u8>, pos: int, up: bool, o: Seq<u8>)
    requires plain(a), iso_ascii(a, pos, up, o, Seq::empty()) is Some,
    ensures ({ let r = iso_ascii(a, pos, up, o, Seq::empty())->Some_0.out; r.len() >= o.len() && r.take(o.len() as int) =~= o }),
    decreases a.len()
{
    if a.len() == 0 {
    } else {
        let ch = a[0];
        assert(plain(a.skip(1))) by { assert forall|i: int| 0 <= i < a.skip(1).len() implies (1 <= #[trigger] a.skip(1)[i] <= 128 || 130 <= a.skip(1)[i] <= 229 || a.skip(1)[i] == 235) by { assert(a.skip(1)[i] == a[i + 1]); } }
        if up && !(1 <= ch <= 128) {
        } else if 1 <= ch <= 128 {
            let c = if up { (ch + 127) as u8 } else { (ch - 1) as u8 };
            lemma_ascii_out_prefix(a.skip(1), pos + 1, false, o.push(c));
            let r = iso_ascii(a.skip(1), pos + 1, false, o.push(c), Seq::empty())->Some_0.out;
            assert(r.take(o.len() as int) =~= r.take(o.len() as int + 1).take(o.len() as int));
        } else if 130 <= ch <= 229 {
            let d1 = (48 + (ch - 130) / 10) as u8; let d2 = (48 + (ch - 130) % 10) as u8;
            lemma_ascii_out_prefix(a.skip(1), pos + 1, up, o.push(d1).push(d2));
            let r = iso_ascii(a.skip(1), pos + 1, up, o.push(d1).push(d2), Seq::empty())->Some_0.out;
            assert(r.take(o.len() as int) =~= r.take(o.len() as int + 2).take(o.len() as int));
        } else {
            lemma_ascii_out_prefix(a.skip(1), pos + 1, true, o);
        }
    }
}

// ASCII run (postcondition shape of ascii::encode) inside a stream
pub proof fn lemma_stream_ascii_run(p: Seq<u8>, chars: Seq<u8>, y: Seq<u8>, pos: int, o: Seq<u8>, e: Seq<(usize, u32)>)
    requires plain(p), iso_ascii(p, 0, false, Seq::empty(), Seq::empty()) == done(chars, p.len() as int),
    ensures iso_ascii(p + y, pos, false, o, e) == iso_ascii(y, pos + p.len(), false, o + chars, e),
{
    assert(Seq::<u8>::empty() + chars =~= chars);
    lemma_ascii_run_shift(p, pos, false, o, e, chars, false, Seq::<u8>::empty(), 0);
    lemma_ascii_append_gen(p, y, pos, false, o, o + chars, e);
}
// a latch codeword in ASCII context hands the rest of the stream to its mode
pub proof fn lemma_stream_latch(m: EncodationType, y: Seq<u8>, pos: int, o: Seq<u8>, e: Seq<(usize, u32)>)
    requires m != EncodationType::Ascii,
    ensures iso_stream(seq![latch_of(m)] + y, pos, EncodationType::Ascii, o, e) == iso_stream(y, pos + 1, m, o, e),
{
    let s = seq![latch_of(m)] + y;
    assert(s.skip(1) =~= y);
    lemma_stream_unfold(s, pos, EncodationType::Ascii, o, e);
}
// X12 run ending with the unlatch codeword (postcondition shape of x12::encode on a switch / with room left)
pub proof fn lemma_stream_x12_run(chars: Seq<u8>, y: Seq<u8>, pos: int, o: Seq<u8>, e: Seq<(usize, u32)>)
    requires chars.len() % 3 == 0, all_native(chars),
    ensures ({ let p = x12_pairs(chars).push(254u8);
               iso_stream(p + y, pos, EncodationType::X12, o, e) == iso_stream(y, pos + p.len(), EncodationType::Ascii, o + chars, e) }),
{
    let p = x12_pairs(chars).push(254u8);
    let s = p + y;
    assert(s =~= x12_pairs(chars) + (seq![254u8] + y));
    lemma_x12_roundtrip(chars, seq![254u8] + y, o);
    let t = seq![254u8] + y;
    assert(t.skip(1) =~= y);
    assert(iso_x12(t, o + chars) == Some((y, o + chars))) by {
        if t.len() <= 1 { assert(y =~= Seq::<u8>::empty()); }
    }
    lemma_x12_pairs_len(chars);
    lemma_stream_unfold(s, pos, EncodationType::X12, o, e);
    if y.len() == 0 {
        lemma_stream_unfold(y, pos + p.len(), EncodationType::Ascii, o + chars, e);
    }
}
// Base 256 field with explicit length (postcondition shape of base256::encode on a switch / with room left)
pub proof fn lemma_stream_b256_run(body: Seq<u8>, y: Seq<u8>, pos: int, o: Seq<u8>, e: Seq<(usize, u32)>)
    requires pos >= 0, 1 <= body.len() <= 1555,
    ensures ({ let p = b256_field(body, true, pos);
               iso_stream(p + y, pos, EncodationType::Base256, o, e) == iso_stream(y, pos + p.len(), EncodationType::Ascii, o + body, e) }),
{
    let p = b256_field(body, true, pos);
    lemma_b256_roundtrip(body, true, pos, y, o);
    lemma_stream_unfold(p + y, pos, EncodationType::Base256, o, e);
    if y.len() == 0 {
        lemma_stream_unfold(y, pos + p.len(), EncodationType::Ascii, o + body, e);
    }
}
