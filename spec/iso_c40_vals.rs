// ---- ISO/IEC 16022 5.2.5 C40 / 5.2.6 Text encodation, encoder side: the values of a character (Table 6) ----
// values of a 7-bit character (basic set: one value; shift sets: the shift value 0 / 1 / 2 and the value in the set)
pub open spec fn c40_low(ch: u8) -> Seq<u8> {
    if ch == 32 { seq![3u8] }
    else if 48 <= ch <= 57 { seq![(ch - 48 + 4) as u8] }
    else if 65 <= ch <= 90 { seq![(ch - 65 + 14) as u8] }
    else if ch <= 31 { seq![0u8, ch] }
    else if 33 <= ch <= 47 { seq![1u8, (ch - 33) as u8] }
    else if 58 <= ch <= 64 { seq![1u8, (ch - 58 + 15) as u8] }
    else if 91 <= ch <= 95 { seq![1u8, (ch - 91 + 22) as u8] }
    else { seq![2u8, (ch - 96) as u8] }
}
// the Text set is the C40 set with the cases of the letters exchanged
pub open spec fn swap_case(ch: u8) -> u8 {
    if 65 <= ch <= 90 { (ch + 32) as u8 } else if 97 <= ch <= 122 { (ch - 32) as u8 } else { ch }
}
pub open spec fn low_vals(ch: u8, text: bool) -> Seq<u8> { if text { c40_low(swap_case(ch)) } else { c40_low(ch) } }
// any character: 128..=255 are written as Shift 2, Upper Shift (value 30), then the values of ch - 128
pub open spec fn char_vals(ch: u8, text: bool) -> Seq<u8> {
    if ch <= 127 { low_vals(ch, text) } else { seq![1u8, 30u8] + low_vals((ch - 128) as u8, text) }
}
