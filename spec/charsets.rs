// ===========================================================================
// Character sets, as code-point functions transcribed from the ISO-8859 code
// charts (ISO/IEC 8859-1, -9, -11).  A byte maps to a Unicode scalar value or is
// undefined.  Printable = 0x20..=0x7E and 0xA0..=0xFF (no C0/C1 controls).
// ===========================================================================
pub open spec fn printable(b: u8) -> bool { (0x20 <= b <= 0x7E) || 0xA0 <= b }

// ISO-8859-1: the identity on code points
pub open spec fn cp_latin1(b: u8) -> int { b as int }

// ISO-8859-9 (Latin-5): Latin-1 with the six Turkish letters
pub open spec fn cp_8859_9(b: u8) -> int {
    if b == 0xD0 { 0x011E } else if b == 0xDD { 0x0130 } else if b == 0xDE { 0x015E }
    else if b == 0xF0 { 0x011F } else if b == 0xFD { 0x0131 } else if b == 0xFE { 0x015F }
    else { b as int }
}

// ISO-8859-11 (Thai): 0xA0 NBSP, 0xA1..0xDA -> U+0E01.., 0xDF..0xFB -> U+0E3F..; 0xDB..0xDE, 0xFC..0xFF undefined
pub open spec fn def_8859_11(b: u8) -> bool { (0x20 <= b <= 0x7E) || (0xA0 <= b <= 0xDA) || (0xDF <= b <= 0xFB) }
pub open spec fn cp_8859_11(b: u8) -> int {
    if b < 0x80 { b as int } else if b == 0xA0 { 0xA0 } else if b <= 0xDA { 0x0E01 + (b - 0xA1) } else { 0x0E3F + (b - 0xDF) }
}

// character-set selector: 3 = ISO-8859-1 (ECI 3), 11 = ISO-8859-9 (ECI 11), 13 = ISO-8859-11 (ECI 13)
pub open spec fn cp(cs: int, b: u8) -> int {
    if cs == 11 { cp_8859_9(b) } else if cs == 13 { cp_8859_11(b) } else { cp_latin1(b) }
}
pub open spec fn defined(cs: int, b: u8) -> bool {
    if cs == 13 { def_8859_11(b) } else { printable(b) }
}

// out == base followed by one character per byte of `bytes[..n]`, code points given by cp(cs, .)
pub open spec fn appended(out: Seq<char>, base: Seq<char>, bytes: Seq<u8>, n: int, cs: int) -> bool {
    &&& out.len() == base.len() + n
    &&& out.take(base.len() as int) =~= base
    &&& forall|i: int| 0 <= i < n ==> (#[trigger] out[base.len() + i]) as int == cp(cs, bytes[i])
}
