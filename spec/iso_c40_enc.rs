// ---- ISO/IEC 16022 5.2.5 C40 / 5.2.6 Text encodation, encoder side: the values of a character (Table 6) ----
// values of a 7-bit character (basic set: one value; shift sets: the shift value 0 / 1 / 2 and the value in the set)
pub open spec fn c40_low(ch: u8) -> Seq<u8> {
    if ch == 32 { seq![3u8] }
    else if 48 <= ch <= 57 { seq![(ch - 48 + 4) as u8] }
    else if 65 <= ch <= 90 { seq![(ch - 65 + 14) as u8] }
    else if ch <= 31 { seq![0u8, ch] }
    else if 33 <= ch <= 47 { seq![1u8, (ch - 33) as u8] }
    else if 58 <= ch <= 64 { seq![1u8, (ch - 58 + 15) as u8] }
    else if 91 <= ch <= 95 { seq![1u8, (ch - 91 + 22) as u8] }
    else { seq![2u8, (ch - 96) as u8] }
}
// the Text set is the C40 set with the cases of the letters exchanged
pub open spec fn swap_case(ch: u8) -> u8 {
    if 65 <= ch <= 90 { (ch + 32) as u8 } else if 97 <= ch <= 122 { (ch - 32) as u8 } else { ch }
}
pub open spec fn low_vals(ch: u8, text: bool) -> Seq<u8> { if text { c40_low(swap_case(ch)) } else { c40_low(ch) } }
// any character: 128..=255 are written as Shift 2, Upper Shift (value 30), then the values of ch - 128
pub open spec fn char_vals(ch: u8, text: bool) -> Seq<u8> {
    if ch <= 127 { low_vals(ch, text) } else { seq![1u8, 30u8] + low_vals((ch - 128) as u8, text) }
}
pub open spec fn str_vals(s: Seq<u8>, text: bool) -> Seq<u8>
    decreases s.len()
{
    if s.len() == 0 { Seq::<u8>::empty() } else { str_vals(s.drop_last(), text) + char_vals(s.last(), text) }
}
// whole triples of values, packed two codewords each (5.2.5.2)
pub open spec fn pack_all(v: Seq<u8>) -> Seq<u8>
    decreases v.len()
{
    if v.len() < 3 { Seq::<u8>::empty() } else { pack3(v[0] as int, v[1] as int, v[2] as int) + pack_all(v.skip(3)) }
}
pub proof fn lemma_pack_all_len(v: Seq<u8>)
    ensures pack_all(v).len() == 2 * (v.len() / 3)
    decreases v.len()
{
    if v.len() >= 3 { lemma_pack_all_len(v.skip(3)); }
}
pub proof fn lemma_pack_all_push(v: Seq<u8>, a: u8, b: u8, c: u8)
    requires v.len() % 3 == 0,
    ensures pack_all(v.push(a).push(b).push(c)) == pack_all(v) + pack3(a as int, b as int, c as int),
    decreases v.len()
{
    let w = v.push(a).push(b).push(c);
    if v.len() == 0 {
        assert(w.skip(3) =~= Seq::<u8>::empty());
        assert(pack_all(w.skip(3)) =~= Seq::<u8>::empty());
        assert(pack_all(v) =~= Seq::<u8>::empty());
        assert(w[0] == a && w[1] == b && w[2] == c);
    } else {
        assert(w.skip(3) =~= v.skip(3).push(a).push(b).push(c));
        lemma_pack_all_push(v.skip(3), a, b, c);
        assert(w[0] == v[0] && w[1] == v[1] && w[2] == v[2]);
        let h = pack3(v[0] as int, v[1] as int, v[2] as int);
        assert(h + (pack_all(v.skip(3)) + pack3(a as int, b as int, c as int)) =~= (h + pack_all(v.skip(3))) + pack3(a as int, b as int, c as int));
    }
}
pub proof fn lemma_str_vals_push(s: Seq<u8>, c: u8, text: bool)
    ensures str_vals(s.push(c), text) == str_vals(s, text) + char_vals(c, text),
{
    assert(s.push(c).drop_last() =~= s);
}

// what a C40 / Text run looks like: the packed whole triples of the values of the kl characters the loop took (kl = consumed, or
// consumed + 1 when the last character was handed back to ASCII), then at most three more codewords
pub open spec fn c40_shape_at(rest0: Seq<u8>, kl: int, prod: Seq<u8>, t: bool) -> bool {
    let v = str_vals(rest0.take(kl), t);
    let w = pack_all(v.take(v.len() - v.len() % 3));
    0 <= kl <= rest0.len() && prod.len() >= w.len() && prod.take(w.len() as int) == w && prod.len() <= w.len() + 3
}
pub open spec fn c40_run_shape(rest0: Seq<u8>, k: int, prod: Seq<u8>, t: bool) -> bool {
    c40_shape_at(rest0, k, prod, t) || c40_shape_at(rest0, k + 1, prod, t)
}
