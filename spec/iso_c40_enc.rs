// ---- C40 / Text encodation, encoder side (continues spec/iso_c40_vals.rs: the Table 6 values of a character) ----
pub open spec fn str_vals(s: Seq<u8>, text: bool) -> Seq<u8>
    decreases s.len()
{
    if s.len() == 0 { Seq::<u8>::empty() } else { str_vals(s.drop_last(), text) + char_vals(s.last(), text) }
}
// whole triples of values, packed two codewords each (5.2.5.2)
pub open spec fn pack_all(v: Seq<u8>) -> Seq<u8>
    decreases v.len()
{
    if v.len() < 3 { Seq::<u8>::empty() } else { pack3(v[0] as int, v[1] as int, v[2] as int) + pack_all(v.skip(3)) }
}
pub proof fn lemma_pack_all_len(v: Seq<u8>)
    ensures pack_all(v).len() == 2 * (v.len() / 3)
    decreases v.len()
{
    if v.len() >= 3 { lemma_pack_all_len(v.skip(3)); }
}
pub proof fn lemma_pack_all_push(v: Seq<u8>, a: u8, b: u8, c: u8)
    requires v.len() % 3 == 0,
    ensures pack_all(v.push(a).push(b).push(c)) == pack_all(v) + pack3(a as int, b as int, c as int),
    decreases v.len()
{
    let w = v.push(a).push(b).push(c);
    if v.len() == 0 {
        assert(w.skip(3) =~= Seq::<u8>::empty());
        assert(pack_all(w.skip(3)) =~= Seq::<u8>::empty());
        assert(pack_all(v) =~= Seq::<u8>::empty());
        assert(w[0] == a && w[1] == b && w[2] == c);
    } else {
        assert(w.skip(3) =~= v.skip(3).push(a).push(b).push(c));
        lemma_pack_all_push(v.skip(3), a, b, c);
        assert(w[0] == v[0] && w[1] == v[1] && w[2] == v[2]);
        let h = pack3(v[0] as int, v[1] as int, v[2] as int);
        assert(h + (pack_all(v.skip(3)) + pack3(a as int, b as int, c as int)) =~= (h + pack_all(v.skip(3))) + pack3(a as int, b as int, c as int));
    }
}
pub proof fn lemma_str_vals_push(s: Seq<u8>, c: u8, text: bool)
    ensures str_vals(s.push(c), text) == str_vals(s, text) + char_vals(c, text),
{
    assert(s.push(c).drop_last() =~= s);
}

// what a C40 / Text run looks like: the packed whole triples of the values of the kl characters the loop took (kl = consumed, or
// consumed + 1 when the last character was handed back to ASCII), then at most three more codewords
pub open spec fn c40_shape_at(rest0: Seq<u8>, kl: int, prod: Seq<u8>, t: bool) -> bool {
    let v = str_vals(rest0.take(kl), t);
    let w = pack_all(v.take(v.len() - v.len() % 3));
    0 <= kl <= rest0.len() && prod.len() >= w.len() && prod.take(w.len() as int) == w && prod.len() <= w.len() + 3
}
pub open spec fn c40_run_shape(rest0: Seq<u8>, k: int, prod: Seq<u8>, t: bool) -> bool {
    c40_shape_at(rest0, k, prod, t) || c40_shape_at(rest0, k + 1, prod, t)
}

// ---- 5.2.5.2: how a C40 / Text run ends (what handle_end may append), as a function of
//   pend   the values of complete characters not yet written (0, 1 or 2; three make a codeword pair),
//   nrest  the number of characters still to come (0 = end of the data), two = they are exactly two digits,
//   last1  the last character taken needs one ASCII codeword,
//   fl(e)  the codewords that stay free in the smallest fitting symbol once e more codewords are written (None: no symbol fits).
// End of the data: b) two values pending and two codewords free: pad with Shift 1 (0), no unlatch; c) one value pending and two
// codewords free: unlatch, the last character goes to ASCII; d) one value pending, one codeword free: the last character goes
// to ASCII without unlatch; otherwise pending values are completed to a triple by shift values (a dangling Shift 2 / Upper Shift
// produces no character) and the unlatch codeword 254 follows if a codeword is free.  In front of exactly two digits the unlatch is left
// out exactly when only the one codeword of the digit pair is free.  More characters to come: pad, then always unlatch.
pub open spec fn c40_pad(pend: Seq<u8>) -> Seq<u8> {
    if pend.len() == 0 { Seq::<u8>::empty() }
    else if pend.len() == 1 { pack3(pend[0] as int, 1, 30) }
    else { pack3(pend[0] as int, pend[1] as int, 1) }
}
pub open spec fn opt254(yes: bool) -> Seq<u8> { if yes { seq![254u8] } else { Seq::<u8>::empty() } }
pub open spec fn c40_tail(pend: Seq<u8>, nrest: int, two: bool, last1: bool, fl: spec_fn(int) -> Option<int>) -> Option<Seq<u8>> {
    let n = pend.len() as int;
    let w = if n > 0 { 2int } else { 0int };
    if nrest == 0 && fl(n) is None { None }
    else if nrest == 0 && n == 2 && fl(2) == Some(0int) { Some(pack3(pend[0] as int, pend[1] as int, 0)) }
    else if nrest == 0 && n == 1 && fl(1) == Some(1int) { Some(seq![254u8]) }
    else if nrest == 0 && n == 1 && fl(1) == Some(0int) && last1 { Some(Seq::<u8>::empty()) }
    else if nrest == 2 && two { match fl(w + 1) { None => None, Some(s) => Some(c40_pad(pend) + opt254(s >= 1)) } }
    else if nrest > 0 { Some(c40_pad(pend).push(254u8)) }
    else { match fl(w) { None => None, Some(s) => Some(c40_pad(pend) + opt254(s > 0)) } }
}
// the last character is handed back to ASCII in the cases c) and d)
pub open spec fn c40_hands_back(pend: Seq<u8>, nrest: int, last1: bool, fl: spec_fn(int) -> Option<int>) -> bool {
    nrest == 0 && pend.len() == 1 && (fl(1) == Some(1int) || (fl(1) == Some(0int) && last1))
}
