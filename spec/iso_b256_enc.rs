// ---- Base 256 encodation, encoder side (ISO/IEC 16022 5.2.9, Annex B.2) ----
pub open spec fn rand255(ch: u8, pos: int) -> u8 {
    let t = ch as int + ((149 * pos) % 255) + 1;
    if t <= 255 { t as u8 } else { (t - 256) as u8 }
}
pub proof fn lemma_rand_derand(ch: u8, pos: int)
    requires pos >= 0,
    ensures derand255(rand255(ch, pos), pos) == ch,
{ }
// 5.2.9.2: field length: 1..249 in one codeword; 250..1555 in two (n div 250 + 249, n mod 250);
// 0 = "runs to the end of the symbol"
pub open spec fn b256_header(n: int, explicit: bool) -> Seq<u8> {
    if !explicit { seq![0u8] } else if n <= 249 { seq![n as u8] } else { seq![(n / 250 + 249) as u8, (n % 250) as u8] }
}
pub open spec fn randomized(s: Seq<u8>, pos0: int) -> Seq<u8> { Seq::new(s.len(), |i: int| rand255(s[i], pos0 + i)) }
pub open spec fn b256_field(body: Seq<u8>, explicit: bool, pos0: int) -> Seq<u8> {
    randomized(b256_header(body.len() as int, explicit) + body, pos0)
}
// copying n randomised bytes gives the plain bytes back
pub proof fn lemma_b256_copy(body: Seq<u8>, pos: int, x: Seq<u8>, o: Seq<u8>)
    requires pos >= 0,
    ensures b256_copy(randomized(body, pos) + x, pos, body.len(), o) == Some((x, o + body)),
    decreases body.len()
{
    let s = randomized(body, pos) + x;
    if body.len() == 0 {
        assert(s =~= x);
        assert(o + body =~= o);
    } else {
        assert(s[0] == rand255(body[0], pos));
        lemma_rand_derand(body[0], pos);
        assert(s.skip(1) =~= randomized(body.skip(1), pos + 1) + x);
        lemma_b256_copy(body.skip(1), pos + 1, x, o.push(body[0]));
        assert(o.push(body[0]) + body.skip(1) =~= o + body);
    }
}
// a Base 256 decoder reads the field back (explicit length: whatever follows is left alone;
// length 0: the field must run to the end of the symbol)
pub proof fn lemma_b256_roundtrip(body: Seq<u8>, explicit: bool, pos0: int, x: Seq<u8>, o: Seq<u8>)
    requires pos0 >= 0, 1 <= body.len() <= 1555, explicit || x.len() == 0,
    ensures iso_b256(b256_field(body, explicit, pos0) + x, pos0, o) == Some((x, o + body)),
{
    let n = body.len() as int;
    let h = b256_header(n, explicit);
    let f = b256_field(body, explicit, pos0);
    let s = f + x;
    assert(f.len() == h.len() + n);
    assert(s[0] == rand255(h[0], pos0));
    lemma_rand_derand(h[0], pos0);
    if !explicit || n <= 249 {
        assert(s.skip(1) =~= randomized(body, pos0 + 1) + x) by {
            assert forall|i: int| 0 <= i < n implies (#[trigger] s.skip(1)[i]) == randomized(body, pos0 + 1)[i] by {
                assert((h + body)[i + 1] == body[i]);
            }
        }
        lemma_b256_copy(body, pos0 + 1, x, o);
        if !explicit { assert(s.len() - 1 == n); }
    } else {
        assert(s[1] == rand255(h[1], pos0 + 1));
        lemma_rand_derand(h[1], pos0 + 1);
        assert(s.skip(2) =~= randomized(body, pos0 + 2) + x) by {
            assert forall|i: int| 0 <= i < n implies (#[trigger] s.skip(2)[i]) == randomized(body, pos0 + 2)[i] by {
                assert((h + body)[i + 2] == body[i]);
            }
        }
        lemma_b256_copy(body, pos0 + 2, x, o);
        assert(250 * ((n / 250 + 249) - 249) + n % 250 == n) by (nonlinear_arith) requires n >= 0;
        assert(250 <= n / 250 + 249 <= 255) by (nonlinear_arith) requires 250 <= n <= 1555;
    }
}
