// ---- ANSI X12 encodation, encoder side (ISO/IEC 16022 5.2.7, Table 7) ----
pub open spec fn x12_enc_val(b: u8) -> int {
    if b == 13 { 0 } else if b == 42 { 1 } else if b == 62 { 2 } else if b == 32 { 3 }
    else if 48 <= b <= 57 { b - 48 + 4 } else { b - 65 + 14 }
}
// 5.2.5.2: three values (C1, C2, C3) are packed as 1600*C1 + 40*C2 + C3 + 1 into two codewords
pub open spec fn pack3(c1: int, c2: int, c3: int) -> Seq<u8> {
    let v = 1600 * c1 + 40 * c2 + c3 + 1;
    seq![(v / 256) as u8, (v % 256) as u8]
}
pub open spec fn x12_pairs(chars: Seq<u8>) -> Seq<u8>
    decreases chars.len()
{
    if chars.len() < 3 { Seq::<u8>::empty() }
    else { pack3(x12_enc_val(chars[0]), x12_enc_val(chars[1]), x12_enc_val(chars[2])) + x12_pairs(chars.skip(3)) }
}
pub proof fn lemma_x12_val_roundtrip(b: u8)
    requires x12_native(b),
    ensures 0 <= x12_enc_val(b) <= 39, x12_val(x12_enc_val(b)) == Some(b),
{ }
pub proof fn lemma_pack3_unpack(c1: int, c2: int, c3: int)
    requires 0 <= c1 < 40, 0 <= c2 < 40, 0 <= c3 < 40,
    ensures ({ let p = pack3(c1, c2, c3); p.len() == 2 && p[0] <= 250 && !(p[0] == 0 && p[1] == 0) && unpack(p[0], p[1]) == (c1, c2, c3) }),
{
    let v = 1600 * c1 + 40 * c2 + c3 + 1;
    assert(1 <= v <= 64000);
    assert(v / 256 <= 250);
    assert((v / 256) * 256 + v % 256 == v);
    assert((v - 1) / 1600 == c1 && ((v - 1) % 1600) / 40 == c2 && (v - 1) % 40 == c3) by (nonlinear_arith)
        requires v == 1600 * c1 + 40 * c2 + c3 + 1, 0 <= c1 < 40, 0 <= c2 < 40, 0 <= c3 < 40;
}
// an X12 decoder reads the packed triples back: the pairs of `chars` followed by x decode like x with chars appended
pub proof fn lemma_x12_roundtrip(chars: Seq<u8>, x: Seq<u8>, o: Seq<u8>)
    requires chars.len() % 3 == 0, all_native(chars),
    ensures iso_x12(x12_pairs(chars) + x, o) == iso_x12(x, o + chars),
    decreases chars.len()
{
    if chars.len() == 0 {
        assert(x12_pairs(chars) + x =~= x);
        assert(o + chars =~= o);
    } else {
        let c1 = x12_enc_val(chars[0]); let c2 = x12_enc_val(chars[1]); let c3 = x12_enc_val(chars[2]);
        lemma_x12_val_roundtrip(chars[0]); lemma_x12_val_roundtrip(chars[1]); lemma_x12_val_roundtrip(chars[2]);
        lemma_pack3_unpack(c1, c2, c3);
        let p = pack3(c1, c2, c3);
        let rest = chars.skip(3);
        let s = x12_pairs(chars) + x;
        assert(s =~= p + (x12_pairs(rest) + x));
        assert(s.len() >= 2 && s[0] == p[0] && s[1] == p[1]);
        assert(s.skip(2) =~= x12_pairs(rest) + x);
        assert(all_native(rest)) by { assert forall|i: int| 0 <= i < rest.len() implies x12_native(#[trigger] rest[i]) by { assert(rest[i] == chars[i + 3]); } }
        lemma_x12_roundtrip(rest, x, o.push(chars[0]).push(chars[1]).push(chars[2]));
        assert(o.push(chars[0]).push(chars[1]).push(chars[2]) + rest =~= o + chars);
    }
}
pub proof fn lemma_x12_pairs_push(chars: Seq<u8>, a: u8, b: u8, c: u8)
    requires chars.len() % 3 == 0,
    ensures x12_pairs(chars.push(a).push(b).push(c)) =~= x12_pairs(chars) + pack3(x12_enc_val(a), x12_enc_val(b), x12_enc_val(c)),
    decreases chars.len()
{
    let full = chars.push(a).push(b).push(c);
    if chars.len() == 0 {
        assert(full.skip(3) =~= Seq::<u8>::empty());
        assert(x12_pairs(full.skip(3)) =~= Seq::<u8>::empty());
    } else {
        assert(full.skip(3) =~= chars.skip(3).push(a).push(b).push(c));
        lemma_x12_pairs_push(chars.skip(3), a, b, c);
    }
}

pub proof fn lemma_x12_pairs_len(chars: Seq<u8>)
    ensures x12_pairs(chars).len() == 2 * (chars.len() / 3),
    decreases chars.len()
{
    if chars.len() >= 3 {
        lemma_x12_pairs_len(chars.skip(3));
        assert(pack3(x12_enc_val(chars[0]), x12_enc_val(chars[1]), x12_enc_val(chars[2])).len() == 2);
    }
}
