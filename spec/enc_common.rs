// ---- shared specification helpers for the encoder units (V-ENC, V-DRV) ----
pub open spec fn starts(s: Seq<u8>, h: Seq<u8>) -> bool { h.len() <= s.len() && s.take(h.len() as int) =~= h }
pub open spec fn ends(s: Seq<u8>, t: Seq<u8>) -> bool { t.len() <= s.len() && s.skip(s.len() - t.len()) =~= t }

// 5.2.4.7: ECI designator for 0 <= n <= 999999 (after the ECI codeword 241)
pub open spec fn iso_eci_designator(n: int) -> Seq<u8> {
    if n <= 126 { seq![(n + 1) as u8] }
    else if n <= 16382 { seq![((n - 127) / 254 + 128) as u8, ((n - 127) % 254 + 1) as u8] }
    else { seq![((n - 16383) / 64516 + 192) as u8, (((n - 16383) / 254) % 254 + 1) as u8, ((n - 16383) % 254 + 1) as u8] }
}
// reading the designator back (spec_eci is the decoder-side function of spec/iso_decode.rs)
pub proof fn lemma_eci_roundtrip(n: int)
    requires 0 <= n <= 999999,
    ensures spec_eci(iso_eci_designator(n)) == Some((iso_eci_designator(n).len() as int, n as u32)),
{
    if n <= 126 { }
    else if n <= 16382 {
        let c = n - 127;
        assert(c == (c / 254) * 254 + c % 254) by (nonlinear_arith);
    } else {
        let c = n - 16383;
        assert(c / 64516 <= 15) by (nonlinear_arith) requires 0 <= c <= 983616;
        assert(c == (c / 254) * 254 + c % 254) by (nonlinear_arith);
        let q = c / 254;
        assert(q == (q / 254) * 254 + q % 254) by (nonlinear_arith);
        assert(q / 254 == c / 64516) by (nonlinear_arith) requires q == c / 254, c >= 0;
    }
}

// all codewords of cw from index `from` on are correctly randomised pads (pos is 1-based)
pub open spec fn pads_from(cw: Seq<u8>, from: int) -> bool {
    forall|i: int| from <= i < cw.len() ==> derand253(#[trigger] cw[i], i + 1) == 129
}
pub open spec fn plan_view(v: Seq<(usize, EncodationType)>) -> PlanS { v.map_values(|x: (usize, EncodationType)| (x.0 as int, x.1)) }
