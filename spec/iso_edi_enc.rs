// ---- ISO/IEC 16022 5.2.8 EDIFACT encodation, encoder side ----
// value of an EDIFACT character (Table 8): its six low bits (32..=63 keep their value, 64..=94 map to 0..=30)
pub open spec fn edi_val(c: u8) -> int { (c % 64) as int }
pub open spec fn edi_encodable(c: u8) -> bool { 32 <= c <= 94 }
pub open spec fn all_edi(s: Seq<u8>) -> bool { forall|i: int| 0 <= i < s.len() ==> edi_encodable(#[trigger] s[i]) }
// four 6-bit values in three codewords
pub open spec fn edi3(v0: int, v1: int, v2: int, v3: int) -> Seq<u8> {
    seq![(v0 * 4 + v1 / 16) as u8, ((v1 % 16) * 16 + v2 / 4) as u8, ((v2 % 4) * 64 + v3) as u8]
}
// whole groups of four characters (a trailing partial group is not part of it)
pub open spec fn edi_groups(s: Seq<u8>) -> Seq<u8>
    decreases s.len()
{
    if s.len() < 4 { Seq::<u8>::empty() }
    else { edi3(edi_val(s[0]), edi_val(s[1]), edi_val(s[2]), edi_val(s[3])) + edi_groups(s.skip(4)) }
}
// a last group of one to four values: missing values are 0; one codeword for one value, two for two, three for three or four
pub open spec fn edi_partial(v: Seq<int>) -> Seq<u8> {
    let g = edi3(v[0], if v.len() > 1 { v[1] } else { 0 }, if v.len() > 2 { v[2] } else { 0 }, if v.len() > 3 { v[3] } else { 0 });
    g.take(if v.len() >= 3 { 3int } else { v.len() as int })
}
pub open spec fn edi_vals(s: Seq<u8>) -> Seq<int> { s.map_values(|c: u8| edi_val(c)) }

pub proof fn lemma_edi_groups_len(s: Seq<u8>)
    ensures edi_groups(s).len() == 3 * (s.len() / 4)
    decreases s.len()
{
    if s.len() >= 4 { lemma_edi_groups_len(s.skip(4)); }
}
// appending one more whole group
pub proof fn lemma_edi_groups_push(s: Seq<u8>, g: Seq<u8>)
    requires s.len() % 4 == 0, g.len() == 4,
    ensures edi_groups(s + g) == edi_groups(s) + edi3(edi_val(g[0]), edi_val(g[1]), edi_val(g[2]), edi_val(g[3])),
    decreases s.len()
{
    if s.len() == 0 {
        assert(s + g =~= g);
        assert(g.skip(4) =~= Seq::<u8>::empty());
        assert(edi_groups(g.skip(4)) =~= Seq::<u8>::empty());
        assert(edi_groups(s) =~= Seq::<u8>::empty());
    } else {
        assert((s + g).skip(4) =~= s.skip(4) + g);
        lemma_edi_groups_push(s.skip(4), g);
        assert((s + g)[0] == s[0] && (s + g)[1] == s[1] && (s + g)[2] == s[2] && (s + g)[3] == s[3]);
        let h = edi3(edi_val(s[0]), edi_val(s[1]), edi_val(s[2]), edi_val(s[3]));
        assert(h + (edi_groups(s.skip(4)) + edi3(edi_val(g[0]), edi_val(g[1]), edi_val(g[2]), edi_val(g[3]))) =~= (h + edi_groups(s.skip(4))) + edi3(edi_val(g[0]), edi_val(g[1]), edi_val(g[2]), edi_val(g[3])));
    }
}
// a partial group at the end does not change the whole groups
pub proof fn lemma_edi_groups_partial(s: Seq<u8>, t: Seq<u8>)
    requires s.len() % 4 == 0, t.len() < 4,
    ensures edi_groups(s + t) == edi_groups(s),
    decreases s.len()
{
    if s.len() == 0 {
        assert(s + t =~= t);
    } else {
        assert((s + t).skip(4) =~= s.skip(4) + t);
        lemma_edi_groups_partial(s.skip(4), t);
        assert((s + t)[0] == s[0] && (s + t)[1] == s[1] && (s + t)[2] == s[2] && (s + t)[3] == s[3]);
    }
}

// ---- what the encoder writes is read back by the ISO decoding function (iso_edifact of spec/iso_decode.rs) ----
// one whole group of encodable characters
pub proof fn lemma_edi_group_roundtrip(a: u8, b: u8, c: u8, d: u8, y: Seq<u8>, out: Seq<u8>)
    requires edi_encodable(a), edi_encodable(b), edi_encodable(c), edi_encodable(d),
    ensures iso_edifact(edi3(edi_val(a), edi_val(b), edi_val(c), edi_val(d)) + y, out) == iso_edifact(y, out.push(a).push(b).push(c).push(d)),
{
    let g = edi3(edi_val(a), edi_val(b), edi_val(c), edi_val(d));
    let s = g + y;
    assert(s.len() >= 3 && s[0] == g[0] && s[1] == g[1] && s[2] == g[2]);
    assert(s.skip(3) =~= y);
    let va = edi_val(a); let vb = edi_val(b); let vc = edi_val(c); let vd = edi_val(d);
    assert(0 <= va < 64 && 0 <= vb < 64 && 0 <= vc < 64 && 0 <= vd < 64);
    assert(va != 31 && vb != 31 && vc != 31 && vd != 31);
    let x0 = s[0] as int; let x1 = s[1] as int; let x2 = s[2] as int;
    assert(x0 == va * 4 + vb / 16 && x1 == (vb % 16) * 16 + vc / 4 && x2 == (vc % 4) * 64 + vd);
    assert(x0 / 4 == va && (x0 % 4) * 16 + x1 / 16 == vb && (x1 % 16) * 4 + x2 / 64 == vc && x2 % 64 == vd);
    assert(edi_char(va) == a && edi_char(vb) == b && edi_char(vc) == c && edi_char(vd) == d);
}
// all whole groups
pub proof fn lemma_edi_groups_roundtrip(cs: Seq<u8>, y: Seq<u8>, out: Seq<u8>)
    requires cs.len() % 4 == 0, all_edi(cs),
    ensures iso_edifact(edi_groups(cs) + y, out) == iso_edifact(y, out + cs),
    decreases cs.len()
{
    if cs.len() == 0 {
        assert(edi_groups(cs) + y =~= y);
        assert(out + cs =~= out);
    } else {
        let t = cs.skip(4);
        let g = edi3(edi_val(cs[0]), edi_val(cs[1]), edi_val(cs[2]), edi_val(cs[3]));
        assert(edi_groups(cs) + y =~= g + (edi_groups(t) + y));
        lemma_edi_group_roundtrip(cs[0], cs[1], cs[2], cs[3], edi_groups(t) + y, out);
        assert(all_edi(t)) by { assert forall|i: int| 0 <= i < t.len() implies edi_encodable(#[trigger] t[i]) by { assert(t[i] == cs[i + 4]); } }
        lemma_edi_groups_roundtrip(t, y, out.push(cs[0]).push(cs[1]).push(cs[2]).push(cs[3]));
        assert(out.push(cs[0]).push(cs[1]).push(cs[2]).push(cs[3]) + t =~= out + cs);
    }
}
// a last partial group (0..3 characters) with the unlatch value behind it, followed by enough codewords for the decoder
// to still be inside the EDIFACT part of the symbol (5.2.8.2: the last one or two codewords of a symbol are ASCII)
pub proof fn lemma_edi_partial_roundtrip(p: Seq<u8>, y: Seq<u8>, out: Seq<u8>)
    requires p.len() <= 3, all_edi(p), edi_partial(edi_vals(p).push(31)).len() + y.len() >= 3,
    ensures iso_edifact(edi_partial(edi_vals(p).push(31)) + y, out) == (y, out + p),
{
    let v = edi_vals(p).push(31);
    let w = edi_partial(v);
    let s = w + y;
    let n = p.len() as int;
    assert(v.len() == n + 1);
    assert(w.len() == (if n + 1 >= 3 { 3int } else { n + 1 }));
    assert forall|i: int| 0 <= i < n implies 0 <= #[trigger] v[i] < 64 && v[i] != 31 && edi_char(v[i]) == p[i] by { assert(v[i] == edi_val(p[i])); assert(edi_encodable(p[i])); }
    assert(v[n] == 31);
    let v0 = v[0]; let v1 = if v.len() > 1 { v[1] } else { 0int }; let v2 = if v.len() > 2 { v[2] } else { 0int }; let v3 = if v.len() > 3 { v[3] } else { 0int };
    let g = edi3(v0, v1, v2, v3);
    assert(forall|i: int| 0 <= i < w.len() ==> w[i] == g[i]);
    let x0 = s[0] as int;
    assert(s[0] == g[0]);
    assert(x0 == v0 * 4 + v1 / 16);
    assert(x0 / 4 == v0);
    if n == 0 {
        assert(s.skip(1) =~= y);
        assert(out + p =~= out);
    } else {
        assert(s[1] == g[1]);
        let x1 = s[1] as int;
        assert(x1 == (v1 % 16) * 16 + v2 / 4);
        assert((x0 % 4) * 16 + x1 / 16 == v1);
        if n == 1 {
            assert(s.skip(2) =~= y);
            assert(out + p =~= out.push(p[0]));
        } else {
            assert(s[2] == g[2]);
            let x2 = s[2] as int;
            assert(x2 == (v2 % 4) * 64 + v3);
            assert((x1 % 16) * 4 + x2 / 64 == v2 && x2 % 64 == v3);
            assert(s.skip(3) =~= y);
            if n == 2 { assert(out + p =~= out.push(p[0]).push(p[1])); } else { assert(out + p =~= out.push(p[0]).push(p[1]).push(p[2])); }
        }
    }
}
// the whole run as the encoder contract describes it (V-EDI): whole groups, then the partial group with the unlatch value
pub proof fn lemma_edi_run_roundtrip(c: Seq<u8>, y: Seq<u8>, out: Seq<u8>)
    requires all_edi(c), edi_partial(edi_vals(c.skip(c.len() - c.len() % 4)).push(31)).len() + y.len() >= 3,
    ensures ({ let part = c.skip(c.len() - c.len() % 4);
               iso_edifact(edi_groups(c) + edi_partial(edi_vals(part).push(31)) + y, out) == (y, out + c) }),
{
    let k = c.len() as int;
    let whole = c.take(k - k % 4);
    let part = c.skip(k - k % 4);
    assert(c =~= whole + part);
    lemma_edi_groups_partial(whole, part);
    assert(all_edi(whole)) by { assert forall|i: int| 0 <= i < whole.len() implies edi_encodable(#[trigger] whole[i]) by { assert(whole[i] == c[i]); } }
    assert(all_edi(part)) by { assert forall|i: int| 0 <= i < part.len() implies edi_encodable(#[trigger] part[i]) by { assert(part[i] == c[i + (k - k % 4)]); } }
    let w = edi_partial(edi_vals(part).push(31));
    assert(edi_groups(c) + w + y =~= edi_groups(whole) + (w + y));
    lemma_edi_groups_roundtrip(whole, w + y, out);
    lemma_edi_partial_roundtrip(part, y, out + whole);
    assert(out + whole + part =~= out + c);
}
