// ---- C40 / Text runs decode back (ISO/IEC 16022 5.2.5 / 5.2.6): lemmas joining the encoder-side value functions
// (iso_c40_enc.rs: Table 6 values, packing) with the decoding function iso_c40 (iso_decode.rs) ----
pub open spec fn lt40(v: Seq<u8>) -> bool { forall|i: int| 0 <= i < v.len() ==> (#[trigger] v[i]) < 40 }
pub open spec fn tbl_base(t: bool) -> Seq<u8> { if t { text_base() } else { c40_base() } }
pub open spec fn tbl_sh3(t: bool) -> Seq<u8> { if t { text_sh3() } else { c40_sh3() } }
// the value-level reading of iso_c40: one value after the other through the shift-state machine of 5.2.5
pub open spec fn c40_vals(st: CState, v: Seq<u8>, base: Seq<u8>, sh3: Seq<u8>) -> Option<CState>
    decreases v.len()
{
    if v.len() == 0 { Some(st) } else {
        match c40_val(st, v[0], base, sh3) { None => None, Some(s1) => c40_vals(s1, v.skip(1), base, sh3) }
    }
}
pub proof fn lemma_c40_vals_append(st: CState, a: Seq<u8>, b: Seq<u8>, base: Seq<u8>, sh3: Seq<u8>)
    ensures c40_vals(st, a + b, base, sh3) == (match c40_vals(st, a, base, sh3) { None => None, Some(s) => c40_vals(s, b, base, sh3) }),
    decreases a.len()
{
    if a.len() == 0 {
        assert(a + b =~= b);
    } else {
        assert((a + b)[0] == a[0]);
        assert((a + b).skip(1) =~= a.skip(1) + b);
        match c40_val(st, a[0], base, sh3) {
            None => {},
            Some(s1) => { lemma_c40_vals_append(s1, a.skip(1), b, base, sh3); }
        }
    }
}
// codeword level = value level: the packed whole triples of v, followed by x, are read as v and then x
pub proof fn lemma_c40_pairs(v: Seq<u8>, x: Seq<u8>, st: CState, base: Seq<u8>, sh3: Seq<u8>)
    requires v.len() % 3 == 0, lt40(v),
    ensures iso_c40(pack_all(v) + x, st, base, sh3) == (match c40_vals(st, v, base, sh3) { None => None, Some(s) => iso_c40(x, s, base, sh3) }),
    decreases v.len()
{
    if v.len() == 0 {
        assert(pack_all(v) + x =~= x);
    } else {
        let c1 = v[0] as int; let c2 = v[1] as int; let c3 = v[2] as int;
        lemma_pack3_unpack(c1, c2, c3);
        let p = pack3(c1, c2, c3);
        let rest = v.skip(3);
        let s = pack_all(v) + x;
        assert(s =~= p + (pack_all(rest) + x));
        assert(s.len() >= 2 && s[0] == p[0] && s[1] == p[1]);
        assert(s.skip(2) =~= pack_all(rest) + x);
        assert(lt40(rest)) by { assert forall|i: int| 0 <= i < rest.len() implies (#[trigger] rest[i]) < 40 by { assert(rest[i] == v[i + 3]); } }
        let tr = seq![c1 as u8, c2 as u8, c3 as u8];
        assert(tr[0] == v[0] && tr[1] == v[1] && tr[2] == v[2]);
        // three steps of the value-level reading are c40_upto(.., 3)
        assert(v.skip(1)[0] == v[1] && v.skip(1).skip(1)[0] == v[2]);
        assert(v.skip(1).skip(1).skip(1) =~= rest);
        assert(v.skip(1).skip(1) =~= v.skip(2));
        let w1 = v.skip(1); let w2 = v.skip(1).skip(1); let w3 = v.skip(1).skip(1).skip(1);
        assert(w1.len() > 0 && w2.len() > 0);
        match c40_val(st, v[0], base, sh3) {
            None => {
                assert(c40_upto(st, tr, 3, base, sh3) is None);
                assert(c40_vals(st, v, base, sh3) is None);
            },
            Some(s1) => {
                assert(c40_vals(st, v, base, sh3) == c40_vals(s1, w1, base, sh3));
                match c40_val(s1, v[1], base, sh3) {
                    None => {
                        assert(c40_upto(st, tr, 3, base, sh3) is None);
                        assert(c40_vals(s1, w1, base, sh3) is None);
                    },
                    Some(s2) => {
                        assert(c40_vals(s1, w1, base, sh3) == c40_vals(s2, w2, base, sh3));
                        match c40_val(s2, v[2], base, sh3) {
                            None => {
                                assert(c40_upto(st, tr, 3, base, sh3) is None);
                                assert(c40_vals(s2, w2, base, sh3) is None);
                            },
                            Some(s3) => {
                                assert(c40_upto(st, tr, 3, base, sh3) == Some(s3));
                                assert(c40_vals(s2, w2, base, sh3) == c40_vals(s3, w3, base, sh3));
                                lemma_c40_pairs(rest, x, s3, base, sh3);
                            }
                        }
                    }
                }
            }
        }
    }
}
// ---- Table 6 read backwards: the sets of iso_decode.rs at symbolic positions ----
pub proof fn lemma_tbl_base(i: int, t: bool)
    requires 0 <= i < 37,
    ensures tbl_base(t).len() == 37,
        tbl_base(t)[i] == (if i == 0 { 32int } else if i <= 10 { 47 + i } else if t { 86 + i } else { 54 + i }),
{
    if t { assert(text_base().len() == 37); } else { assert(c40_base().len() == 37); }
}
pub proof fn lemma_tbl_sh2(i: int)
    requires 0 <= i < 27,
    ensures sh2().len() == 27, sh2()[i] == (if i <= 14 { 33 + i } else if i <= 21 { 43 + i } else { 69 + i }),
{
}
pub proof fn lemma_tbl_sh3(i: int, t: bool)
    requires 0 <= i < 32,
    ensures tbl_sh3(t).len() == 32,
        tbl_sh3(t)[i] == (if !t { 96 + i } else if i == 0 { 96int } else if i <= 26 { 64 + i } else { 96 + i }),
{
}
// one value read in state st
pub proof fn lemma_c40_vals_one(st: CState, a: u8, base: Seq<u8>, sh3: Seq<u8>)
    ensures c40_vals(st, seq![a], base, sh3) == c40_val(st, a, base, sh3),
{
    let v = seq![a];
    assert(v[0] == a && v.skip(1).len() == 0);
    match c40_val(st, a, base, sh3) { None => {}, Some(s1) => { assert(c40_vals(s1, v.skip(1), base, sh3) == Some(s1)); } }
}
pub proof fn lemma_c40_vals_two(st: CState, a: u8, b: u8, base: Seq<u8>, sh3: Seq<u8>)
    ensures c40_vals(st, seq![a, b], base, sh3) == (match c40_val(st, a, base, sh3) { None => None, Some(s1) => c40_val(s1, b, base, sh3) }),
{
    assert(seq![a, b] =~= seq![a] + seq![b]);
    lemma_c40_vals_append(st, seq![a], seq![b], base, sh3);
    lemma_c40_vals_one(st, a, base, sh3);
    match c40_val(st, a, base, sh3) { None => {}, Some(s1) => { lemma_c40_vals_one(s1, b, base, sh3); } }
}
// the values of a 7-bit character (Table 6, C40 or Text), read with no shift pending, give back the character
// (with 128 added if an Upper Shift is pending)
pub proof fn lemma_c40_low_char(st: CState, ch: u8, t: bool)
    requires st.shift == 0, ch <= 127,
    ensures c40_vals(st, low_vals(ch, t), tbl_base(t), tbl_sh3(t)) == Some(emit(st, ch)), lt40(low_vals(ch, t)),
        1 <= low_vals(ch, t).len() <= 2,
{
    let base = tbl_base(t); let sh3 = tbl_sh3(t);
    let c = if t { swap_case(ch) } else { ch };
    let lv = low_vals(ch, t);
    assert(lv == c40_low(c));
    if c == 32 {
        lemma_tbl_base(0, t); lemma_c40_vals_one(st, 3u8, base, sh3);
        assert(lv =~= seq![3u8]);
    } else if 48 <= c <= 57 {
        let k = (c - 48 + 4) as u8;
        lemma_tbl_base(k as int - 3, t); lemma_c40_vals_one(st, k, base, sh3);
        assert(lv =~= seq![k]);
    } else if 65 <= c <= 90 {
        let k = (c - 65 + 14) as u8;
        lemma_tbl_base(k as int - 3, t); lemma_c40_vals_one(st, k, base, sh3);
        assert(lv =~= seq![k]);
    } else if c <= 31 {
        lemma_c40_vals_two(st, 0u8, c, base, sh3);
        assert(lv =~= seq![0u8, c]);
    } else if 33 <= c <= 47 {
        let k = (c - 33) as u8;
        lemma_tbl_sh2(k as int); lemma_c40_vals_two(st, 1u8, k, base, sh3);
        assert(lv =~= seq![1u8, k]);
    } else if 58 <= c <= 64 {
        let k = (c - 58 + 15) as u8;
        lemma_tbl_sh2(k as int); lemma_c40_vals_two(st, 1u8, k, base, sh3);
        assert(lv =~= seq![1u8, k]);
    } else if 91 <= c <= 95 {
        let k = (c - 91 + 22) as u8;
        lemma_tbl_sh2(k as int); lemma_c40_vals_two(st, 1u8, k, base, sh3);
        assert(lv =~= seq![1u8, k]);
    } else {
        let k = (c - 96) as u8;
        lemma_tbl_sh3(k as int, t); lemma_c40_vals_two(st, 2u8, k, base, sh3);
        assert(lv =~= seq![2u8, k]);
    }
}
pub open spec fn neutral(o: Seq<u8>) -> CState { CState { shift: 0, upper: false, out: o } }
// the values of any character, read in the neutral state, give back the character
pub proof fn lemma_c40_char(o: Seq<u8>, ch: u8, t: bool)
    ensures c40_vals(neutral(o), char_vals(ch, t), tbl_base(t), tbl_sh3(t)) == Some(neutral(o.push(ch))), lt40(char_vals(ch, t)),
        1 <= char_vals(ch, t).len() <= 4,
{
    let base = tbl_base(t); let sh3 = tbl_sh3(t);
    if ch <= 127 {
        lemma_c40_low_char(neutral(o), ch, t);
    } else {
        let lo = (ch - 128) as u8;
        let up = CState { shift: 0, upper: true, out: o };
        lemma_c40_vals_two(neutral(o), 1u8, 30u8, base, sh3);
        assert(c40_vals(neutral(o), seq![1u8, 30u8], base, sh3) == Some(up));
        lemma_c40_low_char(up, lo, t);
        lemma_c40_vals_append(neutral(o), seq![1u8, 30u8], low_vals(lo, t), base, sh3);
        assert(emit(up, lo) == neutral(o.push(ch)));
        let cv = char_vals(ch, t);
        assert forall|i: int| 0 <= i < cv.len() implies (#[trigger] cv[i]) < 40 by {
            if i >= 2 { assert(cv[i] == low_vals(lo, t)[i - 2]); }
        }
    }
}
// a whole string
pub proof fn lemma_c40_str(o: Seq<u8>, s: Seq<u8>, t: bool)
    ensures c40_vals(neutral(o), str_vals(s, t), tbl_base(t), tbl_sh3(t)) == Some(neutral(o + s)), lt40(str_vals(s, t)),
    decreases s.len()
{
    if s.len() == 0 {
        assert(o + s =~= o);
    } else {
        let h = s.drop_last();
        lemma_c40_str(o, h, t);
        lemma_c40_char(o + h, s.last(), t);
        lemma_c40_vals_append(neutral(o), str_vals(h, t), char_vals(s.last(), t), tbl_base(t), tbl_sh3(t));
        assert((o + h).push(s.last()) =~= o + s);
        let a = str_vals(h, t); let b = char_vals(s.last(), t); let v = str_vals(s, t);
        assert(v == a + b);
        assert forall|i: int| 0 <= i < v.len() implies (#[trigger] v[i]) < 40 by {
            if i < a.len() { assert(v[i] == a[i]); } else { assert(v[i] == b[i - a.len()]); }
        }
    }
}
// a proper prefix of the values of one character produces no character and no error (a shift or the Upper Shift stays pending)
pub proof fn lemma_c40_char_prefix(o: Seq<u8>, ch: u8, t: bool, k: int)
    requires 0 <= k < char_vals(ch, t).len(),
    ensures c40_vals(neutral(o), char_vals(ch, t).take(k), tbl_base(t), tbl_sh3(t)) is Some,
        c40_vals(neutral(o), char_vals(ch, t).take(k), tbl_base(t), tbl_sh3(t))->Some_0.out == o,
{
    let base = tbl_base(t); let sh3 = tbl_sh3(t);
    let cv = char_vals(ch, t);
    let p = cv.take(k);
    lemma_c40_char(o, ch, t);
    if k == 0 {
        assert(p.len() == 0);
    } else if ch <= 127 {
        // two values: the first one is a shift
        assert(k == 1 && cv.len() == 2);
        let c = if t { swap_case(ch) } else { ch };
        assert(cv == c40_low(c));
        assert(cv[0] <= 2);
        assert(p =~= seq![cv[0]]);
        lemma_c40_vals_one(neutral(o), cv[0], base, sh3);
    } else {
        let lo = (ch - 128) as u8;
        let lv = low_vals(lo, t);
        lemma_c40_low_char(neutral(o), lo, t);
        assert(cv == seq![1u8, 30u8] + lv);
        if k == 1 {
            assert(p =~= seq![1u8]);
            lemma_c40_vals_one(neutral(o), 1u8, base, sh3);
        } else {
            let up = CState { shift: 0, upper: true, out: o };
            lemma_c40_vals_two(neutral(o), 1u8, 30u8, base, sh3);
            if k == 2 {
                assert(p =~= seq![1u8, 30u8]);
            } else {
                assert(k == 3 && lv.len() == 2);
                let c = if t { swap_case(lo) } else { lo };
                assert(lv == c40_low(c));
                assert(lv[0] <= 2);
                assert(p =~= seq![1u8, 30u8] + seq![lv[0]]);
                lemma_c40_vals_append(neutral(o), seq![1u8, 30u8], seq![lv[0]], base, sh3);
                lemma_c40_vals_one(up, lv[0], base, sh3);
            }
        }
    }
}
// what may follow a run that did not end with the unlatch codeword: nothing, or one codeword (ASCII) that is not 254
pub open spec fn c40_follow_ok(prod: Seq<u8>, x: Seq<u8>) -> bool {
    prod.len() % 2 == 1 || (x.len() <= 1 && (x.len() == 1 ==> x[0] != 254))
}
// reading [254]? + x in any state: the run is over, x is left for ASCII
pub proof fn lemma_c40_end(st: CState, unl: bool, x: Seq<u8>, base: Seq<u8>, sh3: Seq<u8>)
    requires unl || (x.len() <= 1 && (x.len() == 1 ==> x[0] != 254)),
    ensures iso_c40(opt254(unl) + x, st, base, sh3) == Some((x, st.out)),
{
    let y = opt254(unl) + x;
    if unl {
        assert(y[0] == 254 && y.skip(1) =~= x);
        if y.len() <= 1 { assert(x.len() == 0); assert(x =~= Seq::<u8>::empty()); }
    } else {
        assert(y =~= x);
    }
}
// common facts of the run lemmas
pub proof fn lemma_c40_run_pre(o: Seq<u8>, taken: Seq<u8>, tv: Seq<u8>, pend: Seq<u8>, t: bool)
    requires str_vals(taken, t) == tv + pend,
    ensures lt40(tv), lt40(pend), c40_vals(neutral(o), str_vals(taken, t), tbl_base(t), tbl_sh3(t)) == Some(neutral(o + taken)),
{
    let sv = str_vals(taken, t);
    lemma_c40_str(o, taken, t);
    assert forall|i: int| 0 <= i < tv.len() implies (#[trigger] tv[i]) < 40 by { assert(sv[i] == tv[i]); }
    assert forall|i: int| 0 <= i < pend.len() implies (#[trigger] pend[i]) < 40 by { assert(sv[tv.len() + i] == pend[i]); }
}
// c) / d): the last character goes to ASCII; the values of it that are already packed are a proper prefix of its values
pub proof fn lemma_c40_run_back(o: Seq<u8>, taken: Seq<u8>, tv: Seq<u8>, pend: Seq<u8>, unl: bool, x: Seq<u8>, t: bool)
    requires str_vals(taken, t) == tv + pend, tv.len() % 3 == 0, pend.len() == 1, taken.len() >= 1,
        unl || (x.len() <= 1 && (x.len() == 1 ==> x[0] != 254)),
    ensures iso_c40(pack_all(tv) + opt254(unl) + x, neutral(o), tbl_base(t), tbl_sh3(t)) == Some((x, o + taken.drop_last())),
{
    let base = tbl_base(t); let sh3 = tbl_sh3(t);
    let sv = str_vals(taken, t);
    lemma_c40_run_pre(o, taken, tv, pend, t);
    let h = taken.drop_last(); let last = taken.last();
    assert(taken =~= h.push(last));
    lemma_str_vals_push(h, last, t);
    let a = str_vals(h, t); let b = char_vals(last, t);
    lemma_c40_char(o + h, last, t);
    assert(tv =~= a + b.take(b.len() - 1)) by {
        assert(tv =~= sv.take(sv.len() - 1));
        assert(sv == a + b);
    }
    lemma_c40_str(o, h, t);
    lemma_c40_vals_append(neutral(o), a, b.take(b.len() - 1), base, sh3);
    lemma_c40_char_prefix(o + h, last, t, b.len() - 1);
    let st = c40_vals(neutral(o), tv, base, sh3)->Some_0;
    assert(st.out == o + h);
    lemma_c40_pairs(tv, opt254(unl) + x, neutral(o), base, sh3);
    assert(pack_all(tv) + opt254(unl) + x =~= pack_all(tv) + (opt254(unl) + x));
    lemma_c40_end(st, unl, x, base, sh3);
}
// pending values completed to a triple by `pad` (shift values: they produce no character), then the unlatch codeword if unl
pub proof fn lemma_c40_run_pad(o: Seq<u8>, taken: Seq<u8>, tv: Seq<u8>, pend: Seq<u8>, pad: Seq<u8>, unl: bool, x: Seq<u8>, t: bool)
    requires str_vals(taken, t) == tv + pend, tv.len() % 3 == 0,
        (pend.len() == 0 && pad.len() == 0) || (pend.len() == 1 && pad == seq![1u8, 30u8]) || (pend.len() == 2 && (pad == seq![1u8] || pad == seq![0u8])),
        unl || (x.len() <= 1 && (x.len() == 1 ==> x[0] != 254)),
    ensures iso_c40(pack_all(tv + pend + pad) + opt254(unl) + x, neutral(o), tbl_base(t), tbl_sh3(t)) == Some((x, o + taken)),
{
    let base = tbl_base(t); let sh3 = tbl_sh3(t);
    let sv = str_vals(taken, t);
    lemma_c40_run_pre(o, taken, tv, pend, t);
    let v = tv + pend + pad;
    assert(v =~= sv + pad);
    assert(lt40(v)) by {
        assert forall|i: int| 0 <= i < v.len() implies (#[trigger] v[i]) < 40 by {
            if i < tv.len() { assert(v[i] == tv[i]); } else if i < tv.len() + pend.len() { assert(v[i] == pend[i - tv.len()]); } else { assert(v[i] == pad[i - tv.len() - pend.len()]); }
        }
    }
    lemma_c40_vals_append(neutral(o), sv, pad, base, sh3);
    if pad.len() == 0 {
        assert(c40_vals(neutral(o + taken), pad, base, sh3) == Some(neutral(o + taken)));
    } else if pad.len() == 1 {
        assert(pad =~= seq![pad[0]]);
        lemma_c40_vals_one(neutral(o + taken), pad[0], base, sh3);
    } else {
        lemma_c40_vals_two(neutral(o + taken), 1u8, 30u8, base, sh3);
    }
    let st = c40_vals(neutral(o), v, base, sh3)->Some_0;
    assert(st.out == o + taken);
    lemma_c40_pairs(v, opt254(unl) + x, neutral(o), base, sh3);
    assert(pack_all(v) + opt254(unl) + x =~= pack_all(v) + (opt254(unl) + x));
    lemma_c40_end(st, unl, x, base, sh3);
}
// pack_all of the completed triple
pub proof fn lemma_c40_pad_pack(tv: Seq<u8>, pend: Seq<u8>)
    requires tv.len() % 3 == 0, 1 <= pend.len() <= 2,
    ensures pend.len() == 1 ==> pack_all(tv + pend + seq![1u8, 30u8]) == pack_all(tv) + pack3(pend[0] as int, 1, 30),
        pend.len() == 2 ==> pack_all(tv + pend + seq![1u8]) == pack_all(tv) + pack3(pend[0] as int, pend[1] as int, 1),
        pend.len() == 2 ==> pack_all(tv + pend + seq![0u8]) == pack_all(tv) + pack3(pend[0] as int, pend[1] as int, 0),
{
    if pend.len() == 1 {
        assert(tv + pend + seq![1u8, 30u8] =~= tv.push(pend[0]).push(1u8).push(30u8));
        lemma_pack_all_push(tv, pend[0], 1u8, 30u8);
    } else {
        assert(tv + pend + seq![1u8] =~= tv.push(pend[0]).push(pend[1]).push(1u8));
        lemma_pack_all_push(tv, pend[0], pend[1], 1u8);
        assert(tv + pend + seq![0u8] =~= tv.push(pend[0]).push(pend[1]).push(0u8));
        lemma_pack_all_push(tv, pend[0], pend[1], 0u8);
    }
}
// THE RUN THEOREM (5.2.5 / 5.2.6): the packed whole triples of the values of the characters taken, followed by the end form
// c40_tail and by x, are read by the decoding function of the standard as exactly the characters consumed, leaving x.
pub proof fn lemma_c40_run(o: Seq<u8>, taken: Seq<u8>, tv: Seq<u8>, pend: Seq<u8>, nrest: int, two: bool, last1: bool, fl: spec_fn(int) -> Option<int>, x: Seq<u8>, t: bool)
    requires str_vals(taken, t) == tv + pend, tv.len() % 3 == 0, pend.len() <= 2, pend.len() >= 1 ==> taken.len() >= 1,
        c40_tail(pend, nrest, two, last1, fl) is Some,
        c40_follow_ok(pack_all(tv) + c40_tail(pend, nrest, two, last1, fl)->Some_0, x),
    ensures ({
        let tail = c40_tail(pend, nrest, two, last1, fl)->Some_0;
        let back = c40_hands_back(pend, nrest, last1, fl);
        iso_c40(pack_all(tv) + tail + x, neutral(o), tbl_base(t), tbl_sh3(t)) == Some((x, o + (if back { taken.drop_last() } else { taken })))
    }),
{
    let tail = c40_tail(pend, nrest, two, last1, fl)->Some_0;
    let back = c40_hands_back(pend, nrest, last1, fl);
    let n = pend.len() as int;
    lemma_pack_all_len(tv);
    let unl = tail.len() % 2 == 1;
    assert(pack3(0, 0, 0).len() == 2);
    if back {
        assert(tail =~= opt254(fl(1) == Some(1int)));
        lemma_c40_run_back(o, taken, tv, pend, unl, x, t);
    } else if nrest == 0 && n == 2 && fl(2) == Some(0int) {
        lemma_c40_pad_pack(tv, pend);
        lemma_c40_run_pad(o, taken, tv, pend, seq![0u8], false, x, t);
        assert(pack_all(tv) + tail + x =~= pack_all(tv + pend + seq![0u8]) + opt254(false) + x);
    } else {
        let pad = if n == 0 { Seq::<u8>::empty() } else if n == 1 { seq![1u8, 30u8] } else { seq![1u8] };
        if n > 0 { lemma_c40_pad_pack(tv, pend); }
        assert(n == 0 ==> tv + pend + pad =~= tv);
        assert(tail =~= c40_pad(pend) + opt254(unl));
        lemma_c40_run_pad(o, taken, tv, pend, pad, unl, x, t);
        assert(pack_all(tv) + tail + x =~= pack_all(tv + pend + pad) + opt254(unl) + x);
    }
}
// what the encoder guarantees about a C40 / Text run (stated for the codewords `prod` the run produced and the k characters it
// consumed of rest0): whatever follows (x: anything after an explicit unlatch, else at most one codeword other than 254), the
// decoding function of the standard reads prod + x as those k characters and leaves x
pub open spec fn c40_run_decodes(rest0: Seq<u8>, k: int, prod: Seq<u8>, t: bool) -> bool {
    0 <= k <= rest0.len() && forall|x: Seq<u8>, o: Seq<u8>| c40_follow_ok(prod, x) ==>
        #[trigger] iso_c40(prod + x, neutral(o), tbl_base(t), tbl_sh3(t)) == Some((x, o + rest0.take(k)))
}
