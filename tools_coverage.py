#!/usr/bin/env python3
"""Which functions of /repo/src are under contract (proved / bounded / assumed / not covered)?  Development aid."""
import os, re, sys, json
sys.path.insert(0, '/verif/lib')
import config, extract, rustscan as R
REPO = os.environ.get('VERIF_REPO', '/repo')
cov = {}   # (rel, name) -> set(status@unit)
for u, spec in config.UNITS.items():
    if spec['engine'] == 'verus':
        extract.SourceFile.cache.clear()
        try:
            ex, text, spans = extract.generate(REPO, '/verif', os.path.join('/verif/units', spec['file']))
        except Exception as e:
            print('!!', u, e); continue
        for q, rel, st in ex.functions:
            name = q.split(' ')[0].split('::')[-1]
            cov.setdefault((rel, name), set()).add('%s@%s' % (st, u))
    else:
        for f in spec.get('functions', []):
            name = f.split(' ')[0].split('::')[-1]
            st = 'bounded' if 'bounded' in spec.get('fn_status', '') else 'kani'
            cov.setdefault((spec['module_file'], name), set()).add('%s@%s' % (st, u))
tot = 0; unc = 0
for root, _, files in os.walk(os.path.join(REPO, 'src')):
    for f in sorted(files):
        if not f.endswith('.rs'): continue
        p = os.path.join(root, f); rel = os.path.relpath(p, REPO)
        if rel.endswith('tests.rs'): continue
        text = open(p).read()
        # cut at first #[cfg(test)] mod / #[test]
        names = []
        for m in re.finditer(r'(?m)^(\s*)(pub(\([a-z]+\))?\s+)?(const\s+)?fn\s+([a-zA-Z_0-9]+)', text):
            pre = text[max(0, m.start()-200):m.start()]
            if re.search(r'#\[test\]\s*$', pre) or re.search(r'#\[cfg\(test\)\]\s*$', pre):
                continue
            names.append(m.group(5))
        rows = []
        for n in names:
            tot += 1
            c = cov.get((rel, n))
            if not c:
                # try any file (impl in another path)
                c2 = [v for (r2, n2), v in cov.items() if n2 == n and os.path.basename(r2) == os.path.basename(rel)]
                c = c2[0] if c2 else None
            if not c: unc += 1
            rows.append('    %-40s %s' % (n, ', '.join(sorted(c)) if c else '-- not covered --'))
        print(rel); print('\n'.join(rows))
print('functions', tot, 'not covered', unc)
